"""Common machinery: evidence, violations, sharding, hypothesis driving, scratch dirs."""
import collections
import hashlib
import json
import multiprocessing
import os
import shutil
import sys
import tempfile
import time
import traceback

VERIF = os.path.dirname(os.path.dirname(os.path.abspath(__file__)))
REPO = os.environ.get("VERIF_REPO", "/repo")
NPROC = int(os.environ.get("VERIF_NPROC", "16"))


def setup_paths():
    """Make `import dds` resolve to $VERIF_REPO (default /repo) and hypothesis importable."""
    deps = os.path.join(VERIF, ".deps")
    if os.path.isdir(deps) and deps not in sys.path:
        sys.path.append(deps)
    if REPO in sys.path:
        sys.path.remove(REPO)
    sys.path.insert(0, REPO)
    sys.dont_write_bytecode = True


def quiet_logging():
    import logging

    logging.disable(logging.CRITICAL)


def chash(obj) -> str:
    return hashlib.sha256(
        json.dumps(obj, sort_keys=True, default=repr).encode("utf-8")
    ).hexdigest()[:16]


class Violation(Exception):
    """The property was observed to fail on `case` (JSON-able)."""

    def __init__(self, msg, case=None, feature=None):
        super().__init__(msg)
        self.msg = msg
        self.case = case
        self.feature = feature

    def __reduce__(self):
        return (Violation, (self.msg, self.case, self.feature))


class HarnessError(Exception):
    pass


class Ev(object):
    """Evidence accumulator (mergeable across shards)."""

    def __init__(self):
        self.evaluations = 0
        self.shrink_evaluations = 0
        self.nontrivial = set()
        self.samples = []
        self.features = collections.Counter()
        self.excluded = collections.Counter()
        self.extra = {}
        self.exhaustive = None
        self.shrinking = False

    def case(self, case, nontrivial, features=(), key=None):
        if self.shrinking:
            self.shrink_evaluations += 1
            return
        self.evaluations += 1
        for f in features:
            self.features[f] += 1
        if nontrivial:
            h = chash(case if key is None else key)
            if h not in self.nontrivial:
                self.nontrivial.add(h)
                if len(self.samples) < 3:
                    self.samples.append(case)

    def merge(self, other):
        self.evaluations += other.evaluations
        self.shrink_evaluations += other.shrink_evaluations
        self.nontrivial |= other.nontrivial
        for s in other.samples:
            if len(self.samples) < 5:
                self.samples.append(s)
        self.features.update(other.features)
        self.excluded.update(other.excluded)
        for k, v in other.extra.items():
            if isinstance(v, (int, float)) and isinstance(self.extra.get(k), (int, float)):
                self.extra[k] += v
            elif isinstance(v, list) and isinstance(self.extra.get(k), list):
                self.extra[k] = (self.extra[k] + v)[:20]
            else:
                self.extra.setdefault(k, v)
        if other.exhaustive is not None:
            self.exhaustive = (
                other.exhaustive if self.exhaustive is None else (self.exhaustive and other.exhaustive)
            )


class Scratch(object):
    """A scratch directory outside /repo and /verif, removed on exit."""

    def __init__(self, tag="vf"):
        base = os.environ.get("VERIF_TMP") or tempfile.gettempdir()
        self.path = tempfile.mkdtemp(prefix=f"{tag}-{os.getpid()}-", dir=base)
        self._n = 0

    def sub(self, name=None):
        self._n += 1
        p = os.path.join(self.path, name or f"d{self._n}")
        os.makedirs(p, exist_ok=True)
        return p

    def clean(self):
        shutil.rmtree(self.path, ignore_errors=True)

    def __enter__(self):
        return self

    def __exit__(self, *a):
        self.clean()


def hyp_drive(strategy, check, seed, max_examples, ev=None, shrink=True, shrink_budget=None):
    """Run `check(case)` over `strategy` with Hypothesis; return the shrunk Violation or None.

    Shrinking is bounded by a number of re-executions (not by time): once the budget is used up every
    further shrink attempt is answered 'passes', so Hypothesis stops with the smallest failure seen so far."""
    import hypothesis
    from hypothesis import HealthCheck, Phase, given, settings

    phases = [Phase.generate] + ([Phase.shrink] if shrink else [])
    st = settings(
        max_examples=max_examples,
        deadline=None,
        database=None,
        derandomize=False,
        report_multiple_bugs=False,
        phases=phases,
        suppress_health_check=list(HealthCheck),
        print_blob=False,
    )
    if shrink_budget is None:
        shrink_budget = int(os.environ.get("VERIF_SHRINK_BUDGET", "150"))
    state = {"failed": False, "best": None, "shrinks": 0}

    def wrapped(case):
        if state["failed"]:
            if ev is not None:
                ev.shrinking = True
            state["shrinks"] += 1
            if state["shrinks"] > shrink_budget:
                return
        try:
            check(case)
        except Violation as v:
            state["failed"] = True
            state["best"] = v
            raise

    test = hypothesis.seed(seed)(st(given(strategy)(wrapped)))
    try:
        test()
    except Violation as v:
        return state["best"] or v
    except BaseException:
        if state["best"] is not None:  # e.g. Flaky raised because the budget cut the final replay
            return state["best"]
        raise
    finally:
        if ev is not None:
            ev.shrinking = False
    return None


def _shard_entry(args):
    fn, idx, n, kw = args
    setup_paths()
    quiet_logging()
    try:
        ev, viol = fn(idx, n, **kw)
        return (ev, viol, None)
    except Violation as v:
        return (Ev(), v, None)
    except BaseException as e:  # harness error
        return (Ev(), None, "".join(traceback.format_exception(type(e), e, e.__traceback__)))


def run_shards(fn, nshards, **kw):
    """Run fn(idx, nshards, **kw) -> (Ev, Violation|None) in nshards forked processes; merge."""
    nshards = max(1, min(nshards, NPROC))
    ctx = multiprocessing.get_context("fork")
    if nshards == 1:
        results = [_shard_entry((fn, 0, 1, kw))]
    else:
        with ctx.Pool(nshards) as pool:
            results = pool.map(_shard_entry, [(fn, i, nshards, kw) for i in range(nshards)], chunksize=1)
    ev = Ev()
    viols = []
    errors = []
    for (e, v, err) in results:
        ev.merge(e)
        if v is not None:
            viols.append(v)
        if err is not None:
            errors.append(err)
    return ev, viols, errors


def load_known_findings(prop_id):
    p = os.path.join(VERIF, "known_findings.jsonl")
    out = []
    if os.path.exists(p):
        with open(p) as f:
            for line in f:
                line = line.strip()
                if not line or line.startswith("#"):
                    continue
                d = json.loads(line)
                if d.get("property") == prop_id:
                    out.append(d)
    return out


def open_features(prop_id):
    """Feature tags excluded from generation because of *open* known findings."""
    return {
        d["feature"]
        for d in load_known_findings(prop_id)
        if d.get("status") == "open" and d.get("feature")
    }


def write_replay(prop_id, viol):
    d = os.path.join(VERIF, "replays", prop_id)
    os.makedirs(d, exist_ok=True)
    body = {"property": prop_id, "message": viol.msg, "case": viol.case}
    name = chash(body) + ".json"
    p = os.path.join(d, name)
    with open(p, "w") as f:
        json.dump(body, f, indent=1, sort_keys=True, default=repr)
    return p


def write_evidence(prop_id, tier, seed, level, ev, wall_s, rule, assumptions, violations, extra=None):
    # sensitivity experiments (VERIF_REPO pointing at a scratch copy) must not overwrite the committed evidence
    d = os.environ.get("VERIF_EVIDENCE_DIR") or os.path.join(VERIF, "evidence")
    os.makedirs(d, exist_ok=True)
    cov = {
        "evaluations": ev.evaluations,
        "distinct_nontrivial": len(ev.nontrivial),
        "rule": rule,
        "samples": ev.samples[:5],
        "shrink_evaluations": ev.shrink_evaluations,
        "feature_histogram": dict(sorted(ev.features.items())),
        "excluded_by_known_finding": dict(ev.excluded),
    }
    if ev.exhaustive is not None:
        cov["exhaustive"] = bool(ev.exhaustive)
    cov.update(ev.extra)
    if extra:
        cov.update(extra)
    body = {
        "property_id": prop_id,
        "tier": tier,
        "seed": seed,
        "level": level,
        "coverage": cov,
        "assumptions": assumptions,
        "wall_s": round(wall_s, 2),
        "violations": violations,
    }
    with open(os.path.join(d, prop_id + ".json"), "w") as f:
        json.dump(body, f, indent=1, sort_keys=True, default=repr)
    return body
