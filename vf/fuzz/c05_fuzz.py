"""Coverage-guided campaign for C05 (atheris / libFuzzer drives Hypothesis' byte-level entry point).

The fuzzed function decodes the bytes with the same Hypothesis strategy as the random tier (`fuzz_one_input`), hashes
the value with the real, instrumented `dds.fun_args.dds_hash` and applies the same oracle: totality (signature or coded
DDS error), stability, and injectivity by bucketing every signature of the campaign against the canonical form.
Run as:  python -m vf.fuzz.c05_fuzz <stats file> <libFuzzer args...>
A violation writes the replay file, prints `FUZZ-VIOLATION <path>` and lets the exception reach libFuzzer.
"""
import json
import os
import sys


def main():
    stats_file = sys.argv[1]
    argv = [sys.argv[0]] + sys.argv[2:]
    from vf import common

    common.setup_paths()
    common.quiet_logging()
    import atheris

    with atheris.instrument_imports(include=["dds"]):
        import dds.fun_args  # noqa
        import dds.structures_utils  # noqa
    from hypothesis import given, settings, HealthCheck
    from vf.props import c05
    from vf.jsonval import enc, dec

    dds_hash, DDSException, codes = c05._dds()
    buckets = {}
    stats = {"execs": 0, "valid": 0, "nontrivial": 0, "features": {}, "distinct": 0, "samples": [], "nt_keys": []}
    seen = set()

    def flush():
        with open(stats_file + ".tmp", "w") as f:
            json.dump(stats, f)
        os.replace(stats_file + ".tmp", stats_file)

    @given(c05.value_strategy())
    @settings(database=None, deadline=None, suppress_health_check=list(HealthCheck), max_examples=1)
    def one(v):
        j = enc(v)
        v = dec(j)
        stats["valid"] += 1
        try:
            res = c05.hash_value(dds_hash, DDSException, codes, v)
            c05.check_supported_result(v, res)
            if res[0] == "sig":
                other = c05.bucket_add(buckets.setdefault(res[1], []), v, j)
                if other is not None and not c05.known_collision(dec(other), v):
                    raise common.Violation(f"collision: {dec(other)!r} and {v!r} share signature {res[1]}", {"kind": "collision", "a": other, "b": j})
                if dds_hash(v) != res[1]:
                    raise common.Violation(f"hash of {v!r} not stable within a process", {"kind": "total", "value": j})
        except common.Violation as viol:
            p = common.write_replay("C05", viol)
            stats["violation"] = {"replay": p, "msg": viol.msg}
            flush()
            print(f"FUZZ-VIOLATION {p}", flush=True)
            raise
        key = common.chash(j)
        if key not in seen:
            seen.add(key)
            stats["distinct"] = len(seen)
            nt = c05.nontrivial(v)
            if nt:
                stats["nontrivial"] += 1
                stats["nt_keys"].append(key)
            for f in (nt or ["plain"]):
                stats["features"]["fuzz:" + f] = stats["features"].get("fuzz:" + f, 0) + 1
            if len(stats["samples"]) < 5 and nt:
                stats["samples"].append(j)

    fuzz_one = one.hypothesis.fuzz_one_input

    def target(data):
        stats["execs"] += 1
        fuzz_one(data)
        if stats["execs"] % 2000 == 0:
            flush()

    atheris.Setup(argv, target)
    flush()
    atheris.Fuzz()


if __name__ == "__main__":
    main()
