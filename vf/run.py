"""Entry point:  python -m vf.run <Cxx> [--tier quick|thorough] [--replay FILE]

exit 0: property held on everything explored
exit 1: `VIOLATION property=<id> replay=<path>` printed
exit 2: harness error / inconclusive (never a violation)
"""
import argparse
import glob
import importlib
import json
import os
import sys
import time
import traceback

from . import common
from .common import Violation, Ev


def main(argv=None):
    ap = argparse.ArgumentParser()
    ap.add_argument("prop")
    ap.add_argument("--tier", default=os.environ.get("VERIF_TIER", "quick"))
    ap.add_argument("--replay", default=None)
    ap.add_argument("--scale", type=float, default=float(os.environ.get("VERIF_SCALE", "1")))
    args = ap.parse_args(argv)
    tier = "thorough" if args.tier.startswith("t") else "quick"
    try:
        seed = int(os.environ.get("VERIF_SEED", "1") or "1")
    except ValueError:
        seed = 1
    os.environ.setdefault("PYTHONHASHSEED", "0")
    common.setup_paths()
    common.quiet_logging()
    pid = args.prop.upper()
    mod = importlib.import_module("vf.props." + pid.lower())

    if args.replay:
        with open(args.replay) as f:
            body = json.load(f)
        try:
            mod.replay(body["case"])
        except Violation as v:
            print(f"replay: {v.msg}")
            print(f"VIOLATION property={pid} replay={os.path.abspath(args.replay)}")
            return 1
        print(f"replay of {args.replay}: property held")
        return 0

    import tempfile, shutil, atexit
    base = tempfile.mkdtemp(prefix=f"vf-run-{pid}-")
    os.environ["VERIF_TMP"] = base
    atexit.register(shutil.rmtree, base, True)

    t0 = time.time()
    viols = []
    errors = []
    known_lines = []
    ev = Ev()
    # 1. regression corpus (committed) and known findings
    try:
        for path in sorted(glob.glob(os.path.join(common.VERIF, "corpus", pid, "*.json"))):
            with open(path) as f:
                body = json.load(f)
            try:
                mod.replay(body["case"])
                ev.extra["regression_cases"] = ev.extra.get("regression_cases", 0) + 1
            except Violation as v:
                v.case = body["case"]
                v.msg = f"regression case {os.path.basename(path)}: {v.msg}"
                viols.append(v)
        for kf in common.load_known_findings(pid):
            if "repro" not in kf:
                continue
            try:
                mod.replay(kf["repro"])
                failed = None
            except Violation as v:
                failed = v
            if kf.get("status") == "open":
                if failed is not None:
                    known_lines.append(f"KNOWN-FINDING: property={pid} {kf['id']} {kf['what']}")
                else:
                    ev.extra.setdefault("known_findings_not_reproduced", []).append(kf["id"])
            else:  # fixed: plain regression case, suppresses nothing
                if failed is not None:
                    failed.case = kf["repro"]
                    failed.msg = f"fixed finding {kf['id']} is back: {failed.msg}"
                    viols.append(failed)
                else:
                    ev.extra["regression_cases"] = ev.extra.get("regression_cases", 0) + 1
    except Exception:
        errors.append(traceback.format_exc())

    # 2. generated search
    if not viols and not errors:
        try:
            ev2, v2, e2 = mod.run(tier, seed, args.scale)
            ev.merge(ev2)
            viols += v2
            errors += e2
        except Violation as v:
            viols.append(v)
        except Exception:
            errors.append(traceback.format_exc())

    wall = time.time() - t0
    open_feats = common.open_features(pid)
    real = []
    for v in viols:
        if v.feature is not None and v.feature in open_feats:
            known_lines.append(f"KNOWN-FINDING: property={pid} feature={v.feature} {v.msg[:200]}")
        else:
            real.append(v)
    try:
        common.write_evidence(
            pid, tier, seed, mod.LEVEL, ev, wall, mod.RULE, mod.ASSUMPTIONS, len(real),
        )
    except Exception:
        errors.append(traceback.format_exc())
    for line in sorted(set(known_lines)):
        print(line)
    print(
        f"{pid} tier={tier} seed={seed} evaluations={ev.evaluations} "
        f"distinct_nontrivial={len(ev.nontrivial)} wall={wall:.1f}s"
    )
    if real:
        seen = set()
        for n, v in enumerate(real):
            if n >= 4:
                print(f"  (+{len(real) - n} more violations not listed)")
                break
            path = common.write_replay(pid, v)
            if path in seen:
                continue
            seen.add(path)
            print(f"  {v.msg[:1500]}")
            print(f"VIOLATION property={pid} replay={path}")
        return 1
    if errors:
        for e in errors[:2]:
            print("HARNESS-ERROR:\n" + (e if len(e) < 3000 else e[:1500] + "\n...\n" + e[-1200:]), file=sys.stderr)
        return 2
    return 0


if __name__ == "__main__":
    sys.exit(main())
