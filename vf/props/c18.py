"""C18 - graph export is faithful and does not perturb the evaluation.

Generated: PipeLang programs (nesting, shared sub-nodes, the same callee kept at several paths, run-time-argument
keeps) and load pipelines; the graph is exported in graphviz 'plain' format and parsed.
Oracle: metamorphic (value and signatures equal with / without export, with / without extra debug, analysis-only
or full), export succeeds whenever the evaluation does; graph vs edges derived from the program model.
"""
import os
import shlex

from .. import common
from ..common import Ev, Violation
from ..harness.session import Session
from ..pipelang import model as M
from ..pipelang import gen as G
from . import c01, c09

ID = "C18"
LEVEL = "exploration"
RULE = (
    "Hypothesis-generated PipeLang programs (up to 8 functions; nested keeps, kept nodes shared by several parents, the same "
    "callee kept at two paths, keeps with run-time arguments), two planted shapes (a chain of run-time keeps followed by a helper "
    "that reaches a chain node again; a kept function loading a path it already depends on through other kept functions; a kept function whose "
    "keeps - one without arguments followed by run-time ones - sit in a plain helper) and load pipelines (load inside a kept function or its helper, "
    "producer earlier in the same or in an earlier evaluation); each is evaluated with dds_export_graph=<file>.plain "
    "(full run, analysis-only run, extra debug on/off) and without; the parsed graph must be acyclic, its node set must be "
    "exactly the kept paths of the evaluation plus the paths loaded by kept functions, its solid edges exactly the pairs "
    "(u, v) where v's function reaches the keep of u without crossing another kept function, its dashed edges the pairs where "
    "v's own body loads u (unless a solid edge u->v exists), and every other edge must be dotted from a node of an earlier "
    "sibling call to a node of a later sibling call that has arguments not known statically. Non-trivial = >=3 kept nodes with "
    ">=1 nested below another or shared, or a load edge; distinct by program."
)
ASSUMPTIONS = [
    "loads placed in helpers of a kept function may or may not be drawn (only direct loads are asserted)",
    "a dotted edge is accepted when its target lies in a later sibling call whose arguments are not all known statically (dds treats the arguments of plain calls as run-time values)",
    "graphviz `dot` and pydotplus are installed (export is skipped and counted otherwise)",
]


def parse_plain(text):
    nodes, edges = set(), []
    for line in text.splitlines():
        if not line.strip():
            continue
        tok = shlex.split(line)
        if tok[0] == "node":
            nodes.add(tok[1])
        elif tok[0] == "edge":
            n = int(tok[3])
            rest = tok[4 + 2 * n:]
            # [label lx ly] style color
            style = rest[-2]
            edges.append((tok[1], tok[2], style))
    return nodes, edges


# ------------------------------------------------------------------------------- model

def heads_of_stmt(prog, st, memo):
    k = st[0]
    if k == "keep":
        return [st[1]]
    if k in ("call", "ho"):
        f = prog["funcs"][st[1]]
        if M.is_data(f):
            return [f["data"]]
        return heads_of_body(prog, ("f", st[1]), memo)
    if k == "cls":
        return heads_of_body(prog, ("c", st[1]), memo)
    return []


def heads_of_body(prog, ref, memo):
    if ref in memo:
        return memo[ref]
    memo[ref] = []
    body = prog["funcs"][ref[1]]["body"] if ref[0] == "f" else prog["classes"][ref[1]]["body"]
    out = []
    for st in body:
        for p in heads_of_stmt(prog, st, memo):
            if p not in out:
                out.append(p)
    memo[ref] = out
    return out


def unknown_args(prog, st):
    if st[0] == "keep":
        return any(a[0] in ("loc", "par") for a in st[4])
    if st[0] == "call":
        f = prog["funcs"][st[1]]
        if M.is_data(f):
            return False
        return any(a[0] != "omit" for a in (st[3] if len(st) > 3 else [])) or any(d == M.NO for _, d in f["params"])
    if st[0] == "cls":
        return True
    return False


def expected_graph(prog, root):
    memo = {}
    sites = {s["path"]: s for s in M.kept_sites(prog, root)}
    solid = set()
    dashed = set()
    loads_nodes = set()
    for p, s in sites.items():
        for u in heads_of_body(prog, ("f", s["callee"]), memo):
            solid.add((u, p))
        for st in prog["funcs"][s["callee"]]["body"]:
            if st[0] == "load":
                dashed.add((st[1], p))
                loads_nodes.add(st[1])
    # allowed dotted edges
    dotted_ok = set()
    reach = M.closure(prog, root)
    bodies = [prog["funcs"][i]["body"] for i in reach["f"]] + [prog["classes"][i]["body"] for i in reach["c"]]
    for body in bodies:
        for j, sj in enumerate(body):
            if not unknown_args(prog, sj):
                continue
            hj = heads_of_stmt(prog, sj, memo)
            for i in range(j):
                for u in heads_of_stmt(prog, body[i], memo):
                    for v in hj:
                        dotted_ok.add((u, v))
            if sj[0] == "cls":
                # `C(x).m()` is two calls for dds (the instantiation with a run-time argument, then the method call):
                # the second one depends on the first, both reach the kept nodes of the class body
                for u in hj:
                    for v in hj:
                        if u != v:
                            dotted_ok.add((u, v))
    return set(sites) | loads_nodes, solid, dashed - solid, dotted_ok


def acyclic(nodes, edges):
    adj = {}
    for u, v, _ in edges:
        adj.setdefault(u, []).append(v)
    state = {}

    def visit(n):
        if state.get(n) == 1:
            return False
        if state.get(n) == 2:
            return True
        state[n] = 1
        for m in adj.get(n, []):
            if not visit(m):
                return False
        state[n] = 2
        return True

    return all(visit(n) for n in list(nodes))


# ------------------------------------------------------------------------------- planted shapes

def planted(kind, a, b, c):
    """Shapes the random generator reaches too rarely.
    chain: a kept node, then `a` keeps with run-time arguments (each takes the previous result), then a plain helper with a
           run-time argument that reaches node number `b` of the chain again (shared sub-node after a chain of call-order edges).
    loadchain: a kept function v that reaches the keep of p through `a` other kept functions and then loads p itself."""
    funcs = []

    def add(name, body, data=None, params=None):
        funcs.append({"name": name, "mod": 0, "params": params or [], "ver": 0, "pad": 0, "data": data, "body": body})
        return len(funcs) - 1

    if kind == "chain":
        n, back, first_keep = a, b % (a + 1), c
        if first_keep:
            d0 = add("d0", [["ext", 0]])
            first = ["keep", "/n0", d0, "bare", []]
            again = ["keep", "/n0", d0, "bare", []]
        else:
            d0 = add("d0", [["ext", 0]], data="/n0")
            first = again = ["call", d0, "bare", []]
        body = [first]
        gs = []
        for i in range(n):
            g = add(f"g{i}", [["ext", 1]], params=[["x", M.NO]])
            gs.append(g)
            body.append(["keep", f"/n{i + 1}", g, "bare", [["loc", i, "pos"]]])
        if back == 0:
            hb = [again]
        else:
            # the helper keeps node `back` again with the same run-time argument
            hb = [["keep", f"/n{back}", gs[back - 1], "bare", [["par", "x"]]]]
        hp = add("hp", hb, params=[["x", M.NO]])
        body.append(["call", hp, "bare", [["loc", n if back == 0 else back - 1, "pos"]]])
        root = add("root", body)
    elif kind == "loadsibling":
        # a keep with a run-time argument whose function also LOADS the path kept by an earlier sibling (dashed edge, not a call-order one)
        first_keep, wrap = bool(a), bool(c)
        if first_keep:
            d0 = add("d0", [["ext", 0]])
            first = ["keep", "/n0", d0, "bare", []]
        else:
            d0 = add("d0", [["ext", 0]], data="/n0")
            first = ["call", d0, "bare", []]
        g = add("g", [["load", "/n0"], ["ext", 1]], params=[["x", M.NO]])
        body = [first, ["keep", "/n1", g, "bare", [["loc", 0, "pos"]]]]
        root = add("root", body, data="/top" if wrap else None)
    elif kind == "defaultwrapper":
        # a plain call WITHOUT arguments to a wrapper whose parameter(s) keep their default values and that keeps a path, after earlier keeps:
        # nothing here has a run-time argument, so no call-order edge may appear
        d0 = add("d0", [["ext", 0]], data="/n0")
        g = add("g", [["ext", 1]])
        hp = add("hp", [["keep", "/n1", g, "bare", []]], params=[["x", 2]] + ([["y", 0]] if b else []))
        body = [["call", d0, "bare", []]] + ([["keep", "/n2", g, "bare", []]] if a else []) + [["call", hp, "bare", [["omit"]] + ([["omit"]] if b else [])]]
        root = add("root", body, data="/top" if c else None)
    elif kind == "helperchain":
        # a kept function reaches its keeps through `b` plain helpers; in the innermost one a keep without arguments is followed by
        # `a` keeps with run-time arguments
        n, depth, wrap = max(1, a), 1 + b % 2, c
        f0 = add("fa", [["ext", 0]])
        body = [["keep", "/h0", f0, "bare", []]]
        for i in range(n):
            g = add(f"g{i}", [["ext", 1]], params=[["x", M.NO]])
            body.append(["keep", f"/h{i + 1}", g, "bare", [["loc", i, "pos"]]])
        prev = add("hp0", body)
        for d in range(1, depth):
            prev = add(f"hp{d}", [["call", prev, "bare", []]])
        v = add("v", [["call", prev, "bare", []]], data="/v")
        root = add("root", [["call", v, "bare", []]]) if wrap else v
    else:
        depth, wrap, extra = a, b, c
        prev = add("p", [["ext", 0]], data="/p")
        for i in range(depth):
            prev = add(f"t{i}", [["call", prev, "bare", []]] + ([["ext", 1]] if extra else []), data=f"/t{i}")
        v = add("v", [["call", prev, "bare", []], ["load", "/p"]], data="/v")
        root = add("root", [["call", v, "bare", []]]) if wrap else v
    prog = {"pkg": M.PKG, "mods": ["m0"], "vars": [], "funcs": funcs, "classes": [], "ext": {"ev": 1, "ver": 0, "pad": 0}, "layout": {}}
    return prog, root


# ------------------------------------------------------------------------------- cases

def case_strategy(opts):
    from hypothesis import strategies as st

    @st.composite
    def gen(draw):
        c = draw(gen0())
        if "load" not in c and draw(st.integers(0, 2)) == 0:
            c["decor"] = draw(st.integers(1, len(DECOR) - 1))
        return c

    @st.composite
    def gen0(draw):
        sel = draw(st.integers(0, 9))
        if sel == 9:
            return {"planted": ["chain", draw(st.integers(1, 4)), draw(st.integers(0, 4)), draw(st.booleans())]}
        if sel == 8:
            if draw(st.integers(0, 3)) == 0:
                return {"planted": ["defaultwrapper", draw(st.integers(0, 1)), draw(st.integers(0, 1)), draw(st.booleans())]}
            if draw(st.integers(0, 2)) == 0:
                return {"planted": ["loadsibling", draw(st.integers(0, 1)), 0, draw(st.booleans())]}
            if draw(st.booleans()):
                return {"planted": ["helperchain", draw(st.integers(1, 3)), draw(st.integers(0, 1)), draw(st.booleans())]}
            return {"planted": ["loadchain", draw(st.integers(0, 3)), draw(st.booleans()), draw(st.booleans())]}
        if sel < 2:
            placement = draw(st.sampled_from(["kept", "kept_helper", "kept", "root"]))
            order = draw(st.sampled_from(["earlier_eval", "same_before"]))
            return {"load": [placement, order, draw(st.sampled_from(["data", "keepcall"])), draw(st.integers(0, 3)), draw(st.booleans())]}
        prog = draw(G.programs(opts))
        ents = [e for e in G.entries(prog) if e[1] == "eval"]
        root = draw(st.sampled_from(ents[-2:] if len(ents) > 1 else ents))[0]
        return {"prog": prog, "root": root}

    return gen()


# characters that mean something to the DOT language / to the plain output format, appended to the last segment of every path
DECOR = ["", ' "draft"', ":port", " it's", " <b>", "->x", " [x]", ";", "{a|b}", "%s"]


def decorate(prog, suffix):
    def walk(x):
        if isinstance(x, str):
            return x + suffix if x.startswith("/") else x
        if isinstance(x, list):
            return [walk(y) for y in x]
        if isinstance(x, dict):
            return {k: walk(v) for k, v in x.items()}
        return x

    return walk(prog)


def check_case(case, ev=None, scratch=None):
    own = scratch is None
    scratch = scratch or common.Scratch("vf-c18")
    sess = Session(scratch, "memory")
    try:
        p_entry = None
        if "load" in case:
            prog, root, p_entry, _rk = c09.build(*case["load"])
            order = case["load"][1]
        elif "planted" in case:
            prog, root = planted(*case["planted"])
            order = None
        else:
            prog, root = case["prog"], case["root"]
            order = None
        if case.get("decor"):
            prog = decorate(prog, DECOR[case["decor"] % len(DECOR)])
        sess.write(prog)
        sess.start()
        if order == "earlier_eval":
            sess.eval(p_entry, "direct" if M.is_data(prog["funcs"][p_entry]) else "eval")
        gdir = scratch.sub()
        # baseline without export (on a separate memory store so that both runs compute)
        base = Session(scratch, "memory")
        base.root, base.prog = sess.root, prog
        base.start()
        if order == "earlier_eval":
            base.eval(p_entry, "direct" if M.is_data(prog["funcs"][p_entry]) else "eval")
        b = base.eval(root, "eval")
        base.close()
        if b["exc"] is not None:
            raise Violation(f"evaluation without export raised {b['exc']['type']}: {b['exc']['msg'][:300]}", case)
        graphs = {}
        for variant, opts in (("analysis-only", {"dds_stages": ["analysis"]}), ("full", {}), ("full+debug", {"dds_extra_debug": True}),
                              ("full-nodebug", {"dds_extra_debug": False})):
            gp = os.path.join(gdir, variant.replace("+", "_") + ".plain")
            o = dict(opts)
            o["dds_export_graph"] = gp
            r = sess.eval(root, "eval", opts=o)
            if r["exc"] is not None:
                raise Violation(f"evaluation with graph export ({variant}) raised {r['exc']['type']}: {r['exc']['msg'][:400]}\n{r['exc'].get('tb_tail','')[-500:]}", case)
            if variant != "analysis-only":
                if r["value"] != b["value"]:
                    raise Violation(f"with graph export ({variant}) the evaluation returned {r['value']!r}, without {b['value']!r}", case)
                if r["sigs"] != b["sigs"]:
                    raise Violation(f"with graph export ({variant}) the signatures differ from the run without export", case)
            if not os.path.exists(gp):
                raise Violation(f"graph export ({variant}) wrote no file", case)
            graphs[variant] = parse_plain(open(gp).read())
        exp_nodes, exp_solid, exp_dashed, dotted_ok = expected_graph(prog, root)
        for variant, (nodes, edges) in graphs.items():
            what = f"graph ({variant})"
            if not acyclic(nodes, edges):
                raise Violation(f"{what} has a cycle: {edges}", case)
            if nodes != exp_nodes:
                raise Violation(f"{what}: nodes {sorted(nodes)} but the evaluation keeps/loads {sorted(exp_nodes)} (missing {sorted(exp_nodes - nodes)}, extra {sorted(nodes - exp_nodes)})", case)
            solid = {(u, v) for u, v, s in edges if s == "solid"}
            dashed = {(u, v) for u, v, s in edges if s == "dashed"}
            other = [(u, v, s) for u, v, s in edges if s not in ("solid", "dashed")]
            if solid != exp_solid:
                raise Violation(f"{what}: solid edges differ: missing {sorted(exp_solid - solid)}, unexpected {sorted(solid - exp_solid)}", case)
            if "load" in case and case["load"][0] == "kept_helper":
                if not dashed <= {(u, v) for u in exp_nodes for v in exp_nodes}:
                    raise Violation(f"{what}: dashed edges {sorted(dashed)}", case)
            elif dashed != exp_dashed:
                raise Violation(f"{what}: dashed (load) edges differ: missing {sorted(exp_dashed - dashed)}, unexpected {sorted(dashed - exp_dashed)}", case)
            for (u, v, s) in other:
                if s != "dotted":
                    raise Violation(f"{what}: edge {u}->{v} has unknown style {s}", case)
                if (u, v) not in dotted_ok:
                    raise Violation(f"{what}: dotted edge {u}->{v} does not go from an earlier sibling to a later call with run-time arguments", case)
        if ev is not None:
            sites = M.kept_sites(prog, root)
            nested = any(v in {s["path"] for s in sites} for (_u, v) in exp_solid)
            nt = (len(sites) >= 3 and nested) or bool(exp_dashed)
            sigs = list(b["sigs"].values())
            feats = ([f"planted:{case['planted'][0]}"] if "planted" in case else []) + [f"kept{min(len(sites), 6)}"] + (["nested"] if nested else []) + (["load-edge"] if exp_dashed else []) + \
                    (["same-signature-at-two-paths"] if len(set(sigs)) < len(sigs) else []) + \
                    (["runtime-arg"] if any(not s["ctxfree"] for s in sites) else [])
            ev.case({"program": c01.slim({"prog": prog, "store": None, "steps": []})["program"], "root": root}, nt, features=feats, key=[M.pkey(prog), root])
    finally:
        sess.close()
        if own:
            scratch.clean()


ARGORDER_SRC = """import dds
import vlog
from xt import util as xu


def scaled(v):
    vlog.rec('scaled')
    return ('scaled', v)


def offset():
    vlog.rec('offset')
    return ('offset',)


def combine(x, y=None, z=None):
    vlog.rec('combine')
    return ('combine', x, y, z)


def root():
    vlog.rec('root')
    v = xu.e0()
    return combine({args})
"""

ARGORDER_VARIANTS = {
    # the keep with the run-time argument is evaluated FIRST: it has no earlier sibling, so no call-order edge may point to it
    "pos_rt_then_kw": "dds.keep('/scaled', scaled, v), y=dds.keep('/offset', offset)",
    "pos_rt_then_kw2": "dds.keep('/scaled', scaled, v), z=dds.keep('/offset', offset)",
    # ... and here it comes second: the edge /offset -> /scaled is allowed (not required)
    "pos_static_then_kw_rt": "dds.keep('/offset', offset), y=dds.keep('/scaled', scaled, v)",
    "two_pos": "dds.keep('/offset', offset), dds.keep('/scaled', scaled, v)",
}


def check_argorder(case, ev=None, scratch=None):
    from ..harness import proc

    own = scratch is None
    scratch = scratch or common.Scratch("vf-c18")
    root_dir, gdir = scratch.sub(), scratch.sub()
    variant = case["argorder"]
    files = {"pk/__init__.py": "", "pk/m0.py": ARGORDER_SRC.format(args=ARGORDER_VARIANTS[variant]), "xt/__init__.py": "", "xt/util.py": "def e0():\n    return ('e0',)\n"}
    for rel, content in files.items():
        p = os.path.join(root_dir, rel)
        os.makedirs(os.path.dirname(p), exist_ok=True)
        open(p, "w").write(content)
    w = proc.Worker()
    try:
        w.call("init", root=root_dir, accepted=["pk"], store={"kind": "memory"})
        gp = os.path.join(gdir, "g.plain")
        r = w.call("eval", module="pk.m0", func="root", style="eval", opts={"dds_export_graph": gp})
        if r["exc"] is not None:
            raise Violation(f"[kept results as arguments of one call: {variant}] evaluation with graph export raised {r['exc']['type']}: {r['exc']['msg'][:300]}", case)
        nodes, edges = parse_plain(open(gp).read())
        if nodes != {"/scaled", "/offset"}:
            raise Violation(f"[kept results as arguments of one call: {variant}] nodes {sorted(nodes)}", case)
        allowed = set() if variant.startswith("pos_rt") else {("/offset", "/scaled", "dotted")}
        bad = [e for e in edges if tuple(e) not in allowed]
        if bad:
            raise Violation(f"[kept results as arguments of one call: {variant}] unexpected edges {bad}: the arguments are evaluated left to right "
                            f"(positional, then keywords); a call-order edge may only go from an earlier keep to a later one with run-time arguments", case)
        if ev is not None:
            ev.case(case, True, features=["kept-results-as-arguments", "argorder:" + variant])
    finally:
        w.close()
        if own:
            scratch.clean()


def shard(idx, n, tier, seed, count):
    ev = Ev()
    scratch = common.Scratch("vf-c18")
    opts = {"exclude": common.open_features(ID), "max_funcs": 8, "data_den": 2}
    try:
        v = common.hyp_drive(case_strategy(opts), lambda c: check_case(c, ev, scratch), seed * 1000 + 1800 + idx, count, ev)
        if v is None and idx < len(ARGORDER_VARIANTS):
            check_argorder({"argorder": sorted(ARGORDER_VARIANTS)[idx]}, ev, scratch)
    finally:
        scratch.clean()
    return ev, v


def run(tier, seed, scale=1.0):
    count = int((20 if tier == "quick" else 300) * scale)
    return common.run_shards(shard, 16, tier=tier, seed=seed, count=count)


def replay(case):
    if "argorder" in case:
        return check_argorder(case)
    check_case(case)
