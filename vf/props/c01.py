"""C01 - memoized evaluation returns exactly what plain execution would return.

Generated: PipeLang programs x histories of evaluations, edits (in-process reload or restart), reverts and
restarts x store kinds.  Oracle: the value of every evaluation equals the dds-free reference interpreter run on
the *current* program state (the interpreter itself is cross-checked against real Python with a stub dds).
"""
import json

from .. import common
from ..common import Ev, Violation
from ..harness.session import Session
from ..pipelang import model as M
from ..pipelang import gen as G

ID = "C01"
LEVEL = "exploration"
RULE = (
    "Hypothesis-generated PipeLang programs (2-7 functions in 1-3 modules of an accepted package: helpers, data functions, "
    "keep statements with literal / run-time / default / keyword arguments, a class, import aliases in 5 forms, higher-order "
    "references, tracked variables of every supported type) x histories of 3-8 steps from {EVAL(style), EDIT(E1 variable, E2 "
    "body/comment, E3 literal, E4 unrelated definition, E5 reorder, E6 value-preserving non-accepted edit; applied in-process "
    "with reload or followed by a restart), RESTART, REVERT} x store {memory, local, local+LRU(1|2|10), noop}; every EVAL value "
    "is compared with the reference interpreter. Non-trivial = the history has an EVAL after a value-changing edit inside the "
    "closure of the evaluated root that was evaluated before (a cache hit would be wrong); distinct by (program, steps)."
)
ASSUMPTIONS = [
    "the supported subset is the one documented in DESIGN.md 2.2; non-accepted code is only edited value-preservingly (untracked by design)",
    "1 in 15 generated programs is also run against a dds-free stub to validate the reference interpreter against real Python (disagreement = harness error)",
    "open known findings exclude their feature from generation (counted in excluded_by_known_finding)",
]

STORES = [("memory", None), ("local", None), ("local-lru", 1), ("local-lru", 2), ("local-lru", 10), ("noop", None)]


def history_strategy(opts):
    from hypothesis import strategies as st

    @st.composite
    def gen(draw):
        location = draw(st.sampled_from(["package"] * 5 + ["notebook", "script"]))
        prog = draw(G.programs(opts if location == "package" else dict(opts, max_mods=1)))
        ents = G.entries(prog)
        kind, cache = draw(st.sampled_from(STORES if location != "script" else [s for s in STORES if s[0].startswith("local")]))
        persistent = kind in ("local", "local-lru")
        steps = []
        cur = prog
        snaps = [prog]
        root, style = draw(st.sampled_from(ents[-2:] if len(ents) > 1 else ents))
        steps.append(["eval", root, style])
        for _ in range(draw(st.integers(2, 7))):
            choices = ["edit", "edit", "edit", "eval"]
            if location == "package" and cur["vars"]:
                choices.append("setvar_live")
            if persistent:
                choices.append("restart")
            if len(snaps) > 1:
                choices.append("revert")
            c = draw(st.sampled_from(choices))
            if c == "edit":
                ed = draw(G.edits(cur, root, opts=opts))
                inproc = draw(st.booleans()) or not persistent
                cur = M.apply_edit(cur, ed)
                snaps.append(cur)
                steps.append(["edit", ed, inproc])
                r2, s2 = draw(st.sampled_from(G.entries(cur))) if draw(st.integers(0, 4)) == 0 else (root, style)
                steps.append(["eval", r2, s2])
            elif c == "setvar_live":
                # E1 in its in-process form: the module attribute is assigned while the process runs (no reload)
                ed = draw(G.edits(cur, root, kinds=["setvar"], opts=opts))
                cur = M.apply_edit(cur, ed)
                snaps.append(cur)
                steps.append(["setvar_live", ed])
                steps.append(["eval", root, style])
            elif c == "eval":
                r2, s2 = draw(st.sampled_from(G.entries(cur)))
                steps.append(["eval", r2, s2])
            elif c == "restart":
                steps.append(["restart"])
                steps.append(["eval", root, style])
            elif c == "revert":
                k = draw(st.integers(0, len(snaps) - 2))
                inproc = draw(st.booleans()) or not persistent
                cur = snaps[k]
                snaps.append(cur)
                steps.append(["revert", k, inproc])
                steps.append(["eval", root, style])
        return {"prog": prog, "store": [kind, cache], "steps": steps, "location": location}

    return gen()


def run_history(case, scratch, on_eval, stub=False):
    """Drives a history; calls on_eval(step_index, cur_prog, root, style, result)."""
    kind, cache = case["store"]
    sess = Session(scratch, kind if not stub else "memory", cache, stub=stub)
    cur = case["prog"]
    snaps = [cur]
    try:
        sess.write(cur)
        sess.start()
        for si, stp in enumerate(case["steps"]):
            k = stp[0]
            if k == "eval":
                res = sess.eval(stp[1], stp[2])
                on_eval(si, cur, stp[1], stp[2], res)
            elif k in ("edit", "revert"):
                names_before = [f["name"] for f in cur["funcs"]]
                if k == "edit":
                    cur = M.apply_edit(cur, stp[1])
                else:
                    cur = snaps[stp[1]]
                snaps.append(cur)
                if stp[2]:
                    # a name disappeared from the source: the modules are imported afresh (a reload would keep the old object)
                    sess.inproc_edit(cur, fresh=names_before != [f["name"] for f in cur["funcs"]])
                else:
                    sess.write(cur)
                    sess.restart()
            elif k == "restart":
                sess.restart()
            else:
                raise common.HarnessError(k)
    finally:
        sess.close()
    return sess


def check_case(case, ev=None, scratch=None, stub_check=False):
    own = scratch is None
    scratch = scratch or common.Scratch("vf-c01")
    try:
        nt = {"edited_inside": False, "evaluated": False, "hit": False}

        def on_eval(si, cur, root, style, res):
            exp, it = M.expected_value(cur, root)
            if res["exc"] is not None:
                raise Violation(
                    f"step {si} EVAL f{root} ({style}) raised {res['exc']['type']}: {res['exc']['msg'][:300]}\n{res['exc'].get('tb_tail','')[-600:]}",
                    case,
                )
            if res["value"] != exp:
                raise Violation(
                    f"step {si} EVAL f{root} ({style}) on store {case['store']} returned {res['value']!r} but plain execution gives {exp!r}; steps={case['steps']}",
                    case,
                )
            if nt["edited_inside"]:
                nt["hit"] = True
            nt["evaluated"] = True

        # track non-triviality while running
        cur = case["prog"]
        snaps = [cur]
        root0 = case["steps"][0][1]
        for stp in case["steps"]:
            if stp[0] in ("edit", "setvar_live"):
                tk, ti = M.edit_target(stp[1])
                cl = M.closure(cur, root0)
                if not M.value_preserving(stp[1]) and tk is not None and ti in cl[tk]:
                    nt["edited_inside"] = True
                cur = M.apply_edit(cur, stp[1])
        nt["edited_inside_static"] = nt["edited_inside"]
        nt["edited_inside"] = False

        def on_eval2(si, cur, root, style, res):
            on_eval(si, cur, root, style, res)

        # run for real; flip 'edited_inside' when the edit step is passed
        def runner():
            kind, cache = case["store"]
            sess = Session(scratch, kind, cache)
            cur = case["prog"]
            snaps = [cur]
            try:
                sess.write(cur)
                sess.start()
                for si, stp in enumerate(case["steps"]):
                    k = stp[0]
                    if k == "eval":
                        res = sess.eval(stp[1], stp[2])
                        on_eval(si, cur, stp[1], stp[2], res)
                    elif k in ("edit", "revert"):
                        names_before = [f["name"] for f in cur["funcs"]]
                        if k == "edit":
                            tk, ti = M.edit_target(stp[1])
                            cl = M.closure(cur, root0)
                            if nt["evaluated"] and not M.value_preserving(stp[1]) and tk is not None and ti in cl[tk]:
                                nt["edited_inside"] = True
                            cur = M.apply_edit(cur, stp[1])
                        else:
                            cur = snaps[stp[1]]
                            nt["edited_inside"] = nt["edited_inside"] or nt["evaluated"]
                        snaps.append(cur)
                        if stp[2]:
                            sess.inproc_edit(cur, fresh=names_before != [f["name"] for f in cur["funcs"]])
                        else:
                            sess.write(cur)
                            sess.restart()
                    elif k == "setvar_live":
                        _edit_flags(nt, cur, ["edit", stp[1]], root0)
                        cur = M.apply_edit(cur, stp[1])
                        snaps.append(cur)
                        v = cur["vars"][stp[1][1]]
                        sess.write(cur)   # the file follows (a later restart sees the same value); no reload
                        sess.w.call("call", module="vf.harness.worker", func="cmd_setvar", args=[M.modname(cur, v["mod"]), v["name"], M.dec(v["val"])])
                    elif k == "restart":
                        sess.restart()
            finally:
                sess.close()

        if case.get("location", "package") == "notebook":
            run_notebook(case, scratch, on_eval, nt, root0)
        elif case.get("location") == "script":
            run_script(case, scratch, on_eval, nt, root0)
        else:
            runner()
        if stub_check:
            stub_crosscheck(case, scratch)
        if ev is not None:
            feats = features(case)
            ev.case(slim(case), nt["hit"], features=feats, key=[M.pkey(case["prog"]), case["steps"], case["store"], case.get("location")])
    finally:
        if own:
            scratch.clean()


def _edit_flags(nt, cur, stp, root0):
    tk, ti = M.edit_target(stp[1])
    cl = M.closure(cur, root0)
    if nt["evaluated"] and not M.value_preserving(stp[1]) and tk is not None and ti in cl[tk]:
        nt["edited_inside"] = True


def run_notebook(case, scratch, on_eval, nt, root0):
    """the code lives in IPython cells (module __main__ of an in-process shell); an edit re-runs the changed cells"""
    import os
    from ..harness import proc, worker as W

    kind, cache = case["store"]
    root = scratch.sub()
    store_dir = scratch.sub()

    def write_ext(prog):
        files = {"xt/__init__.py": "", "xt/util.py": M.render_ext(prog), "vlog.py": W.VLOG_SRC}
        for rel, content in files.items():
            p = os.path.join(root, rel)
            os.makedirs(os.path.dirname(p), exist_ok=True)
            with open(p, "w") as f:
                f.write(content)

    state = {"w": None, "cells": {}}

    def start(prog):
        if state["w"] is not None:
            state["w"].close()
        write_ext(prog)
        w = proc.Worker()
        w.call("ipy_init", root=root, store={"kind": kind, "dir": store_dir, "cache": cache})
        state["w"] = w
        state["cells"] = {}
        sync(prog)

    def sync(prog):
        for (k, i, src) in M.module_cells(prog):
            if state["cells"].get((k, i)) != src:
                state["w"].call("ipy_cell", src=src)
                state["cells"][(k, i)] = src

    cur = case["prog"]
    snaps = [cur]
    try:
        start(cur)
        for si, stp in enumerate(case["steps"]):
            k = stp[0]
            if k == "eval":
                f = cur["funcs"][stp[1]]
                res = state["w"].call("ipy_eval", func=f["name"], style=stp[2])
                on_eval(si, cur, stp[1], stp[2], res)
            elif k in ("edit", "revert"):
                if k == "edit":
                    _edit_flags(nt, cur, stp, root0)
                    cur = M.apply_edit(cur, stp[1])
                else:
                    cur = snaps[stp[1]]
                    nt["edited_inside"] = nt["edited_inside"] or nt["evaluated"]
                snaps.append(cur)
                if stp[2]:
                    write_ext(cur)
                    state["w"].call("ipy_cell", src="import importlib, xt.util\nimportlib.reload(xt.util)")
                    sync(cur)
                else:
                    start(cur)
            elif k == "restart":
                start(cur)
    finally:
        if state["w"] is not None:
            state["w"].close()


SCRIPT_FOOTER = """

if __name__ == "__main__":
    import base64 as _b64, pickle as _pk, sys as _sys
    dds.set_store("local", internal_dir={internal!r}, data_dir={data!r}, cache_objects={cache!r})
    try:
        _val = dds.eval({func}) if {use_eval!r} else {func}()
        _out = {{"value": _val, "exc": None, "log": vlog.take()}}
    except BaseException as _e:
        _out = {{"value": None, "exc": {{"type": type(_e).__name__, "msg": str(_e)[:400]}}, "log": vlog.take()}}
    _sys.stdout.write("VFRESULT:" + _b64.b64encode(_pk.dumps(_out)).decode())
"""


def run_script(case, scratch, on_eval, nt, root0):
    """the code lives in a script run as `python script.py` (module __main__ of a real interpreter)"""
    import base64
    import os
    import pickle
    import subprocess
    import sys
    from ..harness import worker as W

    kind, cache = case["store"]
    root = scratch.sub()
    store_dir = scratch.sub()
    cur = case["prog"]
    snaps = [cur]

    def run_eval(prog, fi, style):
        files = {"xt/__init__.py": "", "xt/util.py": M.render_ext(prog), "vlog.py": W.VLOG_SRC}
        f = prog["funcs"][fi]
        files["pipeline_script.py"] = M.render_module(prog, 0) + SCRIPT_FOOTER.format(
            internal=os.path.join(store_dir, "internal"), data=os.path.join(store_dir, "data"), cache=cache, func=f["name"], use_eval=(style == "eval"))
        for rel, content in files.items():
            p = os.path.join(root, rel)
            os.makedirs(os.path.dirname(p), exist_ok=True)
            with open(p, "w") as fh:
                fh.write(content)
        env = dict(os.environ)
        env["PYTHONPATH"] = os.pathsep.join([common.REPO, root])
        env["PYTHONDONTWRITEBYTECODE"] = "1"
        p = subprocess.run([sys.executable, "-W", "ignore", os.path.join(root, "pipeline_script.py")], stdout=subprocess.PIPE, stderr=subprocess.PIPE, env=env, cwd=root)
        out = p.stdout.decode()
        if "VFRESULT:" not in out:
            raise common.HarnessError("script run failed: " + p.stderr.decode()[-1500:])
        return pickle.loads(base64.b64decode(out.split("VFRESULT:")[1]))

    for si, stp in enumerate(case["steps"]):
        k = stp[0]
        if k == "eval":
            on_eval(si, cur, stp[1], stp[2], run_eval(cur, stp[1], stp[2]))
        elif k in ("edit", "revert"):
            if k == "edit":
                _edit_flags(nt, cur, stp, root0)
                cur = M.apply_edit(cur, stp[1])
            else:
                cur = snaps[stp[1]]
                nt["edited_inside"] = nt["edited_inside"] or nt["evaluated"]
            snaps.append(cur)


def stub_crosscheck(case, scratch):
    """model == real Python (with a dds-free stub); a disagreement is a harness error, never a violation"""
    def on_eval(si, cur, root, style, res):
        exp, _ = M.expected_value(cur, root)
        if res["exc"] is not None or res["value"] != exp:
            raise common.HarnessError(
                f"reference interpreter disagrees with real Python at step {si}: {res} vs {exp!r}\ncase={json.dumps(case)}"
            )

    c2 = dict(case)
    c2["steps"] = [[s[0], s[1], False] if s[0] in ("edit", "revert") else (["edit", s[1], False] if s[0] == "setvar_live" else s) for s in case["steps"]]
    run_history(c2, scratch, on_eval, stub=True)


def features(case):
    prog = case["prog"]
    fs = set()
    fs.add("store:" + case["store"][0] + ("" if case["store"][1] is None else str(case["store"][1])))
    fs.add("location:" + case.get("location", "package"))
    for f in prog["funcs"]:
        if M.is_data(f):
            fs.add("data-function")
        for st in f["body"]:
            if st[0] == "keep":
                fs.add("keep-stmt")
                if any(a[0] in ("loc", "par") for a in st[4]):
                    fs.add("keep-runtime-arg")
                if any(a[0] == "omit" for a in st[4]):
                    fs.add("keep-default-arg")
                if any(len(a) > 2 and a[2] == "kw" for a in st[4]):
                    fs.add("keep-keyword-arg")
                if len(st) > 5:
                    fs.add("keep-multiline")
            if st[0] in ("call", "ho") and prog["funcs"][st[1]]["mod"] != f["mod"]:
                fs.add("import-" + st[2])
            if st[0] == "ho":
                fs.add("higher-order")
                if st[2] not in ("bare", "alias") and prog["funcs"][st[1]]["mod"] != f["mod"]:
                    fs.add("higher-order-through-module-attribute")
            if st[0] == "var" and len(st) > 2:
                fs.add("variable-through-module-attribute")
            if M.inline_args(st):
                fs.add("call-inside-argument")
            if st[0] == "cls":
                fs.add("class")
            if st[0] == "var":
                fs.add("var:" + type(M.dec(prog["vars"][st[1]]["val"])).__name__)
                v = prog["vars"][st[1]]
                if any(o["name"] == v["name"] and o["mod"] != v["mod"] for o in prog["vars"]):
                    fs.add("same-var-name-in-two-modules")
    for stp in case["steps"]:
        if stp[0] == "edit":
            fs.add("edit:" + stp[1][0])
            fs.add("edit-inproc" if stp[2] else "edit-restart")
        elif stp[0] in ("restart", "revert", "setvar_live"):
            fs.add(stp[0])
        elif stp[0] == "eval":
            fs.add("eval:" + stp[2])
    return sorted(fs)


def slim(case):
    return {"store": case["store"], "steps": case["steps"], "location": case.get("location", "package"),
            "program": {m: src for m, src in M.render(case["prog"]).items() if m.startswith(M.PKG + "/m")}}


# ---- the same path kept more than once in one evaluation ---------------------------------------------------------------

DUP_SRC = """import dds
import vlog


def a({pa}):
    vlog.rec('a')
    return ('a', {ra})


def b({pb}):
    vlog.rec('b')
    return ('b', {rb})


def second():
    vlog.rec('second')
    r1 = int('1')
    r2 = int('2')
    return dds.keep('/dup/q', {second})


{deco}def wrapped():
    vlog.rec('wrapped')
    return second()


def root():
    vlog.rec('root')
    r1 = int('1')
    r2 = int('2')
    x = dds.keep('/dup/q', {first})
    y = {call_second}
    return (x, y)


def later():
    r1 = int('1')
    r2 = int('2')
    return (dds.keep('/dup/other1', {first}), dds.keep('/dup/other2', {second}))
"""

DUP_PAIRS = {
    # first keep, second keep, parameters / results of a and b, plain results
    "two_functions": ("a", "b", "", "0", "", "0", (("a", 0), ("b", 0))),
    "same_function_other_argument": ("a, 1", "a, 2", "x", "x", "", "0", (("a", 1), ("a", 2))),
    "same_function_other_keyword": ("a, x=1", "a, x=2", "x", "x", "", "0", (("a", 1), ("a", 2))),
    "identical": ("a", "a", "", "0", "", "0", (("a", 0), ("a", 0))),
    "same_function_runtime_arguments": ("a, r1", "a, r2", "x", "x", "", "0", (("a", 1), ("a", 2))),
}


def dup_strategy():
    from hypothesis import strategies as st

    kinds = sorted(k for k in DUP_PAIRS if not (k == "same_function_runtime_arguments" and "same-path-runtime-arguments" in common.open_features(ID)))
    return st.fixed_dictionaries({
        "dup": st.sampled_from(kinds),
        "where": st.sampled_from(["same_body", "helper", "kept_function"]),
        "store": st.sampled_from([["memory", None], ["local", None], ["local-lru", 2]]),
    })


def check_duplicate_path(case, ev=None, scratch=None):
    """One path kept twice in one evaluation (by two functions, or by one function with two arguments): dds either refuses the
    evaluation with a DDS error before anything runs, or every keep returns what plain execution returns - and in both cases
    nothing wrong is left in the store for later evaluations."""
    from ..harness import proc
    import os

    own = scratch is None
    scratch = scratch or common.Scratch("vf-c01")
    first, second, pa, ra, pb, rb, plain = DUP_PAIRS[case["dup"]]
    where = case["where"]
    src = DUP_SRC.format(pa=pa, ra=ra, pb=pb, rb=rb, first=first, second=second,
                         deco="@dds.data_function('/dup/w')\n" if where == "kept_function" else "",
                         call_second=f"dds.keep('/dup/q', {second})" if where == "same_body" else ("second()" if where == "helper" else "wrapped()"))
    root_dir, store_dir = scratch.sub(), scratch.sub()
    for rel, content in {"pk/__init__.py": "", "pk/m0.py": src}.items():
        pth = os.path.join(root_dir, rel)
        os.makedirs(os.path.dirname(pth), exist_ok=True)
        open(pth, "w").write(content)
    tag = f"[one path kept twice: {case['dup']} / second keep in {where} / {case['store'][0]}]"
    w = proc.Worker()
    try:
        w.call("init", root=root_dir, accepted=["pk"], store={"kind": case["store"][0], "dir": store_dir, "cache": case["store"][1]})
        outcome = None
        for rnd in (0, 1):
            r = w.call("eval", module="pk.m0", func="root", style="eval")
            if r["exc"] is not None:
                if not r["exc"]["is_dds"]:
                    raise Violation(f"{tag} evaluation raised {r['exc']['type']}: {r['exc']['msg'][:200]} (neither a DDS error nor the plain result)", case)
                if r["log"] or r.get("stored") or r.get("synced"):
                    raise Violation(f"{tag} the evaluation was refused only after user code ran or the store was written: log={r['log']} stored={len(r.get('stored', []))}", case)
                outcome = "refused"
            else:
                if tuple(r["value"]) != plain:
                    raise Violation(f"{tag} evaluation {rnd} returned {r['value']!r} but plain execution gives {plain!r}", case)
                outcome = "evaluated"
        r = w.call("eval", module="pk.m0", func="later", style="eval")
        if r["exc"] is not None:
            raise Violation(f"{tag} a later evaluation keeping the two results under separate paths raised {r['exc']['type']}: {r['exc']['msg'][:200]}", case)
        if tuple(r["value"]) != plain:
            raise Violation(f"{tag} after the evaluation was {outcome}, keeping the two results under separate paths returns {r['value']!r}, plain execution gives {plain!r}", case)
        if ev is not None:
            ev.case(case, case["dup"] != "identical", features=["same-path-kept-twice", "dup:" + case["dup"], "dup-outcome:" + outcome])
    finally:
        w.close()
        if own:
            scratch.clean()


# ---- an accepted module imported inside the function body only ------------------------------------------------------------

LOCMOD_MAIN = """import dds
import vlog


@dds.data_function('/lm/out')
def f():
    vlog.rec('f')
    import {imp}
    return ('f', {ref}.g(), {ref}.LZ)
"""
LOCMOD_HELPER = "import vlog\n\nLZ = {lz}\n\n\ndef g():\n    vlog.rec('g')\n    return ('g', {ver}, LZ)\n"


def locmod_strategy():
    from hypothesis import strategies as st

    return st.fixed_dictionaries({
        "locmod": st.just("top"),     # `import lmhelper` (a sub-module first imported inside a function does not exist yet when dds analyses the code: refused, see C11)
        "store": st.sampled_from([["memory", None], ["local", None], ["local-lru", 2]]),
        "edits": st.lists(st.tuples(st.sampled_from(["lz", "ver", "none"]), st.booleans()).map(list), min_size=1, max_size=3),
    })


def check_local_module_import(case, ev=None, scratch=None):
    """The helper module is only imported inside the body of the kept function (un-aliased `import name`): its function and its
    variable are dependencies like any other - edits must be seen, in the same process or in a fresh one."""
    from ..harness import proc
    import os

    own = scratch is None
    scratch = scratch or common.Scratch("vf-c01")
    root_dir, store_dir = scratch.sub(), scratch.sub()
    top = case["locmod"] == "top"
    imp, ref = ("lmhelper", "lmhelper") if top else ("pk.sub", "pk.sub")
    helper_rel = "lmhelper.py" if top else "pk/sub.py"
    lz, ver = 1, 0
    mt = [1600000000]
    tag = f"[helper module imported inside the function body: import {imp} / {case['store'][0]}]"

    def files():
        return {"pk/__init__.py": "", "pk/m0.py": LOCMOD_MAIN.format(imp=imp, ref=ref), helper_rel: LOCMOD_HELPER.format(lz=lz, ver=ver)}

    for rel, content in files().items():
        pth = os.path.join(root_dir, rel)
        os.makedirs(os.path.dirname(pth), exist_ok=True)
        open(pth, "w").write(content)
        os.utime(pth, (mt[0], mt[0]))
    if case["store"][0] == "memory":
        case = dict(case, edits=[[e, True] for e, _ in case["edits"]])
    w = [proc.Worker()]
    accepted = ["pk", "lmhelper"] if top else ["pk"]

    def init():
        w[0].call("init", root=root_dir, accepted=accepted, store={"kind": case["store"][0], "dir": store_dir, "cache": case["store"][1]})

    try:
        init()
        seen = set()

        def evaluate(step):
            r = w[0].call("eval", module="pk.m0", func="f", style="direct")
            if r["exc"] is not None:
                raise Violation(f"{tag} step {step}: evaluation raised {r['exc']['type']}: {r['exc']['msg'][:300]}", case)
            want = ("f", ("g", ver, lz), lz)
            if r["value"] != want:
                raise Violation(f"{tag} step {step}: returned {r['value']!r} but plain execution gives {want!r}; edits={case['edits']}", case)
            if (lz, ver) in seen and "f" in r["log"]:
                raise Violation(f"{tag} step {step}: the kept function ran again although nothing changed (log={r['log']})", case)
            seen.add((lz, ver))

        evaluate(-1)
        for si, (ed, inproc) in enumerate(case["edits"]):
            if ed == "lz":
                lz += 1
            elif ed == "ver":
                ver += 1
            mt[0] += 10
            if inproc:
                w[0].call("write_files", files=files(), reload=False, mtime=mt[0])
                w[0].call("call", module="vf.harness.session", func="_reload_present", args=[["lmhelper", "pk", "pk.sub", "pk.m0"]])
            else:
                for rel, content in files().items():
                    pth = os.path.join(root_dir, rel)
                    open(pth, "w").write(content)
                    os.utime(pth, (mt[0], mt[0]))
                w[0].close()
                w[0] = proc.Worker()
                init()
            evaluate(si)
        if ev is not None:
            ev.case(case, any(e != "none" for e, _ in case["edits"]), features=["function-local-module-import", "locmod:" + case["locmod"]])
    finally:
        w[0].close()
        if own:
            scratch.clean()


# ---- a tracked structure modified in place at a nested level --------------------------------------------------------------

NESTED_SRC = """import dds
import vlog

CONF = {conf}


@dds.data_function('/nm/out')
def f():
    vlog.rec('f')
    return ('f', repr(CONF))
"""
NESTED_CONFS = {
    "dict_of_list": ("{'features': [1], 'k': 2}", "m.CONF['features'].append({n})"),
    "list_of_list": ("[[1], [2, 3]]", "m.CONF[1].append({n})"),
    "dict_of_dict": ("{'opt': {'a': 1}, 'k': 2}", "m.CONF['opt']['b{n}'] = {n}"),
    "list_top_level": ("[1, 2]", "m.CONF.append({n})"),
    "odict_of_list": ("__import__('collections').OrderedDict([('rows', [1])])", "m.CONF['rows'].append({n})"),
}


def _nested_apply(stmt):
    import importlib

    m = importlib.import_module("pk.m0")
    exec(stmt, {"m": m})
    return repr(m.CONF)


def nested_strategy():
    from hypothesis import strategies as st

    return st.fixed_dictionaries({"nested": st.sampled_from(sorted(NESTED_CONFS)), "store": st.sampled_from([["memory", None], ["local", None], ["local-lru", 2]]),
                                  "steps": st.lists(st.sampled_from(["mutate", "mutate", "none"]), min_size=1, max_size=4)})


def check_nested_mutation(case, ev=None, scratch=None):
    """A tracked list / dict is modified IN PLACE below its top level while the process lives (CONF['features'].append(x)): the next
    evaluation must see the new content."""
    from ..harness import proc
    import os

    own = scratch is None
    scratch = scratch or common.Scratch("vf-c01")
    root_dir, store_dir = scratch.sub(), scratch.sub()
    conf, stmt = NESTED_CONFS[case["nested"]]
    for rel, content in {"pk/__init__.py": "", "pk/m0.py": NESTED_SRC.format(conf=conf)}.items():
        pth = os.path.join(root_dir, rel)
        os.makedirs(os.path.dirname(pth), exist_ok=True)
        open(pth, "w").write(content)
    w = proc.Worker()
    tag = f"[tracked structure modified in place: {case['nested']} / {case['store'][0]}]"
    try:
        w.call("init", root=root_dir, accepted=["pk"], store={"kind": case["store"][0], "dir": store_dir, "cache": case["store"][1]})
        current = w.call("call", module="vf.props.c01", func="_nested_apply", args=["pass"])
        n = 10
        for si, stp in enumerate(["none"] + case["steps"]):
            if stp == "mutate":
                n += 1
                current = w.call("call", module="vf.props.c01", func="_nested_apply", args=[stmt.format(n=n)])
            r = w.call("eval", module="pk.m0", func="f", style="direct")
            if r["exc"] is not None:
                raise Violation(f"{tag} step {si}: evaluation raised {r['exc']['type']}: {r['exc']['msg'][:200]}", case)
            if r["value"] != ("f", current):
                raise Violation(f"{tag} step {si}: returned {r['value']!r} but the structure is now {current}; steps={case['steps']}", case)
        if ev is not None:
            ev.case(case, "mutate" in case["steps"], features=["tracked-structure-modified-in-place", "nested:" + case["nested"]])
    finally:
        w.close()
        if own:
            scratch.clean()


# ---- classes of an accepted module that inherit their constructor from a built-in type -------------------------------------
BSUB_SRC = """import dds
import vlog


class {cls}({base}):
    pass


BIAS = {bias}


def h(x):
    vlog.rec('h')
{use}
    return ('h', x + BIAS)


def f():
    vlog.rec('f')
    return dds.keep('/bs/out', h, {x})
"""
BSUB_USES = {
    "raise": "    if x < 0:\n        raise {cls}('negative input')",
    "construct": "    box = {cls}()\n    x = x + len(box)",
    "except": "    try:\n        x = x + 0\n    except {cls}:\n        x = 0",
}
BSUB_BASES = {"raise": ["Exception", "ValueError", "KeyError", "RuntimeError"], "construct": ["dict", "list", "set"], "except": ["Exception", "LookupError"]}


def bsub_strategy():
    from hypothesis import strategies as st

    def mk(use):
        return st.fixed_dictionaries({"bsub": st.just(use), "base": st.sampled_from(BSUB_BASES[use]), "cls": st.sampled_from(["PipelineError", "Box", "Err"]),
                                      "store": st.sampled_from([["memory", None], ["local", None], ["local-lru", 2]]),
                                      "steps": st.lists(st.sampled_from(["bias", "neg", "pos", "none"]), min_size=1, max_size=4)})

    return st.sampled_from(sorted(BSUB_USES)).flatmap(mk)


def check_builtin_subclass(case, ev=None, scratch=None):
    """The accepted module defines a class that takes its constructor from a built-in type (a user-defined exception, a dict / list
    subclass) and the kept function raises, constructs or catches it: the evaluation must behave like plain execution (value, or
    the user's own exception), also after edits of a tracked variable / of the literal argument."""
    from ..harness import proc
    import os

    own = scratch is None
    scratch = scratch or common.Scratch("vf-c01")
    root_dir, store_dir = scratch.sub(), scratch.sub()
    bias, x = 1, 3
    mt = [1600000000]
    tag = f"[class derived from built-in {case['base']} used by the kept function ({case['bsub']}) / {case['store'][0]}]"

    def files():
        use = BSUB_USES[case["bsub"]].format(cls=case["cls"])
        return {"pk/__init__.py": "", "pk/m0.py": BSUB_SRC.format(cls=case["cls"], base=case["base"], bias=bias, use=use, x=x)}

    for rel, content in files().items():
        pth = os.path.join(root_dir, rel)
        os.makedirs(os.path.dirname(pth), exist_ok=True)
        open(pth, "w").write(content)
        os.utime(pth, (mt[0], mt[0]))
    w = proc.Worker()
    try:
        w.call("init", root=root_dir, accepted=["pk"], store={"kind": case["store"][0], "dir": store_dir, "cache": case["store"][1]})
        for si, stp in enumerate(["none"] + case["steps"]):
            if stp == "bias":
                bias += 1
            elif stp == "neg":
                x = -abs(x) - 1
            elif stp == "pos":
                x = abs(x) + 1
            if stp != "none":
                mt[0] += 10
                w.call("write_files", files=files(), reload=True, mtime=mt[0])
            r = w.call("eval", module="pk.m0", func="f", style="direct")
            raises = case["bsub"] == "raise" and x < 0
            if raises:
                if r["exc"] is None or r["exc"]["type"] != case["cls"]:
                    got = r["exc"] and (r["exc"]["type"], r["exc"]["msg"][:200])
                    raise Violation(f"{tag} step {si}: plain execution raises {case['cls']} but the evaluation gave value={r.get('value')!r} exc={got}", case)
            else:
                if r["exc"] is not None:
                    raise Violation(f"{tag} step {si}: evaluation raised {r['exc']['type']}: {r['exc']['msg'][:200]}", case)
                if r["value"] != ("h", x + bias):
                    raise Violation(f"{tag} step {si}: returned {r['value']!r} but plain execution gives {('h', x + bias)!r}; steps={case['steps']}", case)
        if ev is not None:
            ev.case(case, any(s != "none" for s in case["steps"]), features=["class-derived-from-builtin", "bsub:" + case["bsub"], "base:" + case["base"]])
    finally:
        w.close()
        if own:
            scratch.clean()


# ---- names bound in an inner scope (lambda / nested function) that are spelled like a tracked module variable --------------
ISC_SRC = """import dds
import vlog

RATE = {rate}


def h():
    vlog.rec('h')
{body}


def f():
    vlog.rec('f')
    return dds.keep('/isc/out', h)
"""
# shape -> (body, value as a function of RATE, binds the name by assignment inside a nested function)
ISC_SHAPES = {
    "lambda_default": ("    sc = lambda v, RATE=RATE: v * RATE\n    return ('h', sc(2))", lambda r: 2 * r, False),
    "lambda_param": ("    sc = lambda RATE: RATE + 1\n    return ('h', sc(1) + RATE)", lambda r: 2 + r, False),
    "inner_def_param": ("    def add(v, RATE):\n        return v + RATE\n    return ('h', add(1, 5) + RATE)", lambda r: 6 + r, False),
    "inner_def_default": ("    def add(v, RATE=RATE):\n        return v + RATE\n    return ('h', add(1))", lambda r: 1 + r, False),
    "inner_def_kwonly": ("    def add(v, *, RATE=0):\n        return v + RATE\n    return ('h', add(1, RATE=2) + RATE)", lambda r: 3 + r, False),
    "inner_def_local": ("    def inner():\n        RATE = 5\n        return RATE\n    return ('h', inner() + RATE)", lambda r: 5 + r, True),
    "inner_def_for": ("    def inner():\n        t = 0\n        for RATE in (1, 2):\n            t += RATE\n        return t\n    return ('h', inner() + RATE)", lambda r: 3 + r, True),
}
ISC_OPEN = "nested-function-assigns-module-variable-name"


def isc_strategy(exclude=()):
    from hypothesis import strategies as st

    shapes = sorted(k for k, v in ISC_SHAPES.items() if not (v[2] and ISC_OPEN in exclude))
    return st.fixed_dictionaries({"isc": st.sampled_from(shapes), "store": st.sampled_from([["memory", None], ["local", None], ["local-lru", 2]]),
                                  "steps": st.lists(st.tuples(st.sampled_from(["rate", "rate", "none", "back"]), st.booleans()).map(list), min_size=1, max_size=4)})


def check_inner_scope(case, ev=None, scratch=None):
    """The kept function binds, in an inner scope only (parameter of a lambda / of a nested function, with or without a default
    that reads the module variable), a name that is also a tracked module variable which the function reads: the variable stays a
    dependency - after its value changes (in this process or before a fresh one) the evaluation gives the new plain result."""
    from ..harness import proc
    import os

    own = scratch is None
    scratch = scratch or common.Scratch("vf-c01")
    root_dir, store_dir = scratch.sub(), scratch.sub()
    body, val, nested_assign = ISC_SHAPES[case["isc"]]
    feature = ISC_OPEN if nested_assign else None
    rate, mt = 2, [1600000000]
    tag = f"[name bound in an inner scope and spelled like a tracked variable: {case['isc']} / {case['store'][0]}]"
    steps = case["steps"] if case["store"][0] != "memory" else [[e, True] for e, _ in case["steps"]]

    def files():
        return {"pk/__init__.py": "", "pk/m0.py": ISC_SRC.format(rate=rate, body=body)}

    def write():
        for rel, content in files().items():
            pth = os.path.join(root_dir, rel)
            os.makedirs(os.path.dirname(pth), exist_ok=True)
            open(pth, "w").write(content)
            os.utime(pth, (mt[0], mt[0]))

    write()
    w = [proc.Worker()]

    def init():
        w[0].call("init", root=root_dir, accepted=["pk"], store={"kind": case["store"][0], "dir": store_dir, "cache": case["store"][1]})

    try:
        init()
        for si, (stp, inproc) in enumerate([["none", True]] + steps):
            if stp == "rate":
                rate += 1
            elif stp == "back":
                rate = 2
            if stp != "none":
                mt[0] += 10
                if inproc:
                    w[0].call("write_files", files=files(), reload=True, mtime=mt[0])
                else:
                    write()
                    w[0].close()
                    w[0] = proc.Worker()
                    init()
            r = w[0].call("eval", module="pk.m0", func="f", style="direct")
            if r["exc"] is not None:
                raise Violation(f"{tag} step {si}: evaluation raised {r['exc']['type']}: {r['exc']['msg'][:200]}", case, feature)
            if r["value"] != ("h", val(rate)):
                raise Violation(f"{tag} step {si}: returned {r['value']!r} but plain execution gives {('h', val(rate))!r} (RATE = {rate}); steps={case['steps']}", case, feature)
        if ev is not None:
            ev.case(case, any(s != "none" for s, _ in case["steps"]), features=["inner-scope-binding", "isc:" + case["isc"]])
    finally:
        w[0].close()
        if own:
            scratch.clean()


def gen_opts():
    return {"exclude": common.open_features(ID), "loads": False, "nested_args": True}


def shard(idx, n, tier, seed, count):
    ev = Ev()
    try:  # loaded once here so that the forked notebook workers inherit it
        import IPython.core.interactiveshell  # noqa
    except ImportError:
        pass
    scratch = common.Scratch("vf-c01")
    opts = gen_opts()
    counter = [0]

    def check(case):
        counter[0] += 1
        check_case(case, ev, scratch, stub_check=(counter[0] % 15 == 1))

    try:
        v = common.hyp_drive(history_strategy(opts), check, seed * 1000 + 100 + idx, count, ev)
        if v is None and idx % 4 == 1:
            v = common.hyp_drive(nested_strategy(), lambda c: check_nested_mutation(c, ev, scratch), seed * 1000 + 190 + idx, max(3, count // 8), ev)
        if v is None and idx % 4 == 2:
            v = common.hyp_drive(locmod_strategy(), lambda c: check_local_module_import(c, ev, scratch), seed * 1000 + 170 + idx, max(3, count // 8), ev)
        if v is None and idx % 4 == 1:
            v = common.hyp_drive(isc_strategy(opts["exclude"]), lambda c: check_inner_scope(c, ev, scratch), seed * 1000 + 110 + idx, max(3, count // 8), ev)
        if v is None and idx % 4 == 3:
            v = common.hyp_drive(bsub_strategy(), lambda c: check_builtin_subclass(c, ev, scratch), seed * 1000 + 130 + idx, max(3, count // 8), ev)
        if v is None and idx % 4 == 0:
            v = common.hyp_drive(dup_strategy(), lambda c: check_duplicate_path(c, ev, scratch), seed * 1000 + 150 + idx, max(3, count // 8), ev)
    finally:
        scratch.clean()
    for t in opts["exclude"]:
        ev.excluded[t] += 1
    return ev, v


def run(tier, seed, scale=1.0):
    count = int((40 if tier == "quick" else 600) * scale)
    return common.run_shards(shard, 16, tier=tier, seed=seed, count=count)


def replay(case):
    if "nested" in case:
        return check_nested_mutation(case)
    if "bsub" in case:
        return check_builtin_subclass(case)
    if "isc" in case:
        return check_inner_scope(case)
    if "locmod" in case:
        return check_local_module_import(case)
    if "dup" in case:
        check_duplicate_path(case)
    else:
        check_case(case, stub_check=True)
