"""C13 - a kept call's signature depends on the argument binding, not on its spelling.

Generated: callee signatures (1..4 positional-or-keyword parameters, with/without defaults taken from a
set that contains falsy values and None) x bindings x every spelling of a binding (positional prefix,
keywords in every order, defaults omitted or explicit) x route (direct dds.keep with values / dds.keep
seen as literals in the source of an evaluated function).
Oracle: one signature per exact binding across all spellings and both routes; canonically different
bindings get different signatures.
"""
import importlib
import itertools
import json
import os
import sys

from .. import common
from ..common import Ev, Violation
from ..jsonval import enc, dec
from .c05 import canon

ID = "C13"
LEVEL = "exploration"
RULE = (
    "callee shapes (1-4 parameters named a,b,c,d / value,factor,offset,base / z,y,x,w, each without default or with a default from {None,0,1,False,True,'','x',0.0,(),[1]}) "
    "x a base binding and its single-parameter variations x all spellings (positional prefix + keywords in every order, "
    "defaults omitted or passed explicitly) x {direct dds.keep(path, f, values), dds.keep with literals inside a function "
    "evaluated by dds.eval}; shapes with <=2 parameters are enumerated exhaustively over the value set. Signatures are "
    "captured through a dds.Store wrapper. Non-trivial = the binding relies on a default or a keyword and is compared "
    "with a binding that differs in exactly one parameter; distinct by (shape, binding)."
)
ASSUMPTIONS = [
    "in-source route only uses arguments that Python parses as ast.Constant (non-negative numbers, strings, None, booleans); "
    "other expressions are run-time arguments by design (signature from the call-site context)",
    "bindings that are equal under the documented identifications (True vs 1, () vs []) are not required to differ nor to coincide",
]

DEFAULTS = [None, 0, 1, False, True, "", "x", 0.0, (), [1]]
VALUES = [None, 0, 1, 2, False, True, "", "x", "__none__", "False", "None", 0.0, 1.5, (), [1], [0]]
CONST_OK = (type(None), bool, int, float, str)
NO = "<nodefault>"
_counter = [0]


def lit(v):
    return repr(v)


def spellings(params, binding, defaults, limit=None):
    """All call spellings (args, kwargs-in-order) that produce `binding`."""
    n = len(params)
    out = []
    for k in range(n + 1):  # positional prefix length
        pos = [binding[p] for p in params[:k]]
        rest = params[k:]
        # parameters whose value equals (exactly) the default may be omitted
        optional = [p for p in rest if defaults[p] is not NO and exact(defaults[p]) == exact(binding[p])]
        for r in range(len(optional) + 1):
            for omitted in itertools.combinations(optional, r):
                kws = [p for p in rest if p not in omitted]
                for perm in itertools.permutations(kws):
                    out.append((pos, [(p, binding[p]) for p in perm]))
                    if limit and len(out) >= limit:
                        return out
    return out


def exact(v):
    return json.dumps(enc(v), sort_keys=True) + type(v).__name__


def render_module(params, defaults, calls):
    sig = ", ".join(p if defaults[p] is NO else f"{p}={lit(defaults[p])}" for p in params)
    lines = ["import dds", "", "", "def g(z):", "    return ('g', z)", "", "",
             f"def f({sig}):", f"    return ('f', g({params[0]}), {', '.join(params)})", "", ""]
    for i, (pos, kws) in enumerate(calls):
        if not in_source_ok(pos, kws):
            continue
        a = ", ".join([lit(v) for v in pos] + [f"{k}={lit(v)}" for k, v in kws])
        lines += [f"def w{i}():", f"    return dds.keep('/s', f{', ' if a else ''}{a})", "", ""]
    # a plain (not kept) call of f with explicit arguments, analysed before everything else in this process
    full = ", ".join(f"{p}={lit(defaults[p]) if defaults[p] is not NO else '0'}" for p in params)
    lines += ["def pre():", f"    return f({full})", "", ""]
    # two kept calls of f in ONE evaluation (different bindings, different paths)
    ok = [i for i, (pos, kws) in enumerate(calls) if in_source_ok(pos, kws)]
    for n, (i, j) in enumerate(zip(ok, ok[1:] + ok[:1])):
        def txt(k):
            pos, kws = calls[k]
            a = ", ".join([lit(v) for v in pos] + [f"{kk}={lit(v)}" for kk, v in kws])
            return f"f{', ' if a else ''}{a}"
        lines += [f"def wp{i}():", f"    t = dds.keep('/t', {txt(j)})", f"    s = dds.keep('/s', {txt(i)})", "    return (s, t)", "", ""]
    return "\n".join(lines)


def in_source_ok(pos, kws):
    return all(isinstance(v, CONST_OK) for v in pos) and all(isinstance(v, CONST_OK) for _, v in kws)


class Env(object):
    """Per-process environment: scratch package on sys.path, capture store installed."""

    def __init__(self):
        import dds
        from dds.store import MemoryStore
        from ..harness.capture import make_capture

        self.scratch = common.Scratch("vf-c13")
        self.pkname = f"c13pk{os.getpid()}"
        self.pk = os.path.join(self.scratch.path, self.pkname)
        os.makedirs(self.pk)
        open(os.path.join(self.pk, "__init__.py"), "w").close()
        sys.path.insert(0, self.scratch.path)
        dds.accept_module(self.pkname)
        self.dds = dds
        self.cap = make_capture(MemoryStore())
        dds.set_store(self.cap)

    def load(self, src):
        _counter[0] += 1
        name = f"m{os.getpid()}_{_counter[0]}"
        with open(os.path.join(self.pk, name + ".py"), "w") as f:
            f.write(src)
        importlib.invalidate_caches()
        return importlib.import_module(self.pkname + "." + name)

    def redefine(self, mod, src):
        """the same module is edited (other defaults for the same function name) and reloaded in this process"""
        import linecache

        path = mod.__file__
        with open(path, "w") as f:
            f.write(src)
        self.mtime = getattr(self, "mtime", 1700000000) + 10
        os.utime(path, (self.mtime, self.mtime))
        importlib.invalidate_caches()
        linecache.checkcache()
        return importlib.reload(mod)

    def sig_direct(self, mod, pos, kws):
        self.cap.reset_log()
        self.cap.inner.__init__()  # fresh memory store: every call computes
        self.dds.keep("/s", mod.f, *pos, **dict(kws))
        return self.cap.last_sigs()["/s"]

    def sig_source(self, mod, i):
        self.cap.reset_log()
        self.cap.inner.__init__()
        self.dds.eval(getattr(mod, f"w{i}"))
        return self.cap.last_sigs()["/s"]

    def sig_pair(self, mod, i):
        self.cap.reset_log()
        self.cap.inner.__init__()
        self.dds.eval(getattr(mod, f"wp{i}"))
        return self.cap.last_sigs()["/s"]


_env = [None]


def env():
    if _env[0] is None or _env[0].pid != os.getpid():
        e = Env()
        e.pid = os.getpid()
        _env[0] = e
    return _env[0]


def check_case(case, ev=None):
    """case = {"params": [...], "defaults": {p: enc|NO}, "bindings": [ {p: enc} ... ], "redefine": {p: enc}?}"""
    mod = check_round(case, case["defaults"], ev, None)
    if case.get("redefine"):
        # the function is redefined under the same name with other defaults (edit + reload): omitted parameters
        # must now be bound to the NEW defaults
        d2 = dict(case["defaults"])
        d2.update(case["redefine"])
        check_round(case, d2, None, mod)


def check_round(case, enc_defaults, ev, redefine_mod):
    params = case["params"]
    defaults = {p: (NO if enc_defaults[p] == NO else dec(enc_defaults[p])) for p in params}
    bindings = [{p: dec(b[p]) for p in params} for b in case["bindings"]]
    if redefine_mod is not None:
        # make sure at least one binding relies on each new default
        extra = dict(bindings[0])
        for p in params:
            if defaults[p] is not NO:
                extra[p] = defaults[p]
        if not any(all(exact(extra[q]) == exact(o[q]) for q in params) for o in bindings):
            bindings.append(extra)
    e = env()
    calls = []
    owner = []
    for bi, b in enumerate(bindings):
        sp = spellings(params, b, defaults, limit=case.get("limit"))
        calls += sp
        owner += [bi] * len(sp)
    src = render_module(params, defaults, calls)
    mod = e.load(src) if redefine_mod is None else e.redefine(redefine_mod, src)
    e.dds.eval(mod.pre)
    by_binding = {}
    descr = {}
    for i, (pos, kws) in enumerate(calls):
        routes = [("direct", None)]
        if in_source_ok(pos, kws):
            routes.append(("source", i))
            if hasattr(mod, f"wp{i}"):
                routes.append(("source-after-another-kept-call", i))
        for route, wi in routes:
            try:
                s = e.sig_direct(mod, pos, kws) if route == "direct" else (e.sig_source(mod, wi) if route == "source" else e.sig_pair(mod, wi))
            except BaseException as ex:
                raise Violation(
                    f"{route} call f({pos}, {kws}) of def f({sig_text(params, defaults)}) failed: {type(ex).__name__}: {ex}", case
                )
            by_binding.setdefault(owner[i], {}).setdefault(s, (route, pos, kws))
    # same binding -> one signature
    for bi, sigs in by_binding.items():
        if len(sigs) > 1:
            (s1, d1), (s2, d2) = list(sigs.items())[:2]
            raise Violation(
                f"def f({sig_text(params, defaults)}): binding {bindings[bi]} has {len(sigs)} signatures: "
                f"{d1[0]} f(*{d1[1]}, **{dict(d1[2])}) -> {s1[:12]} but {d2[0]} f(*{d2[1]}, **{dict(d2[2])}) -> {s2[:12]}",
                case,
            )
    # different bindings -> different signatures
    cb = {bi: json.dumps({p: canon(b[p]) for p in params}, sort_keys=True) for bi, b in enumerate(bindings)}
    seen = {}
    for bi, sigs in by_binding.items():
        s = next(iter(sigs))
        if s in seen and cb[seen[s]] != cb[bi]:
            raise Violation(
                f"def f({sig_text(params, defaults)}): different bindings {bindings[seen[s]]} and {bindings[bi]} share signature {s[:12]}",
                case,
            )
        seen.setdefault(s, bi)
    if ev is not None:
        for bi, b in enumerate(bindings):
            uses_default = any(defaults[p] is not NO for p in params)
            ev.case(
                {"def": sig_text(params, defaults), "binding": {p: enc(v) for p, v in b.items()}},
                nontrivial=(uses_default or len(params) > 1) and len(bindings) > 1,
                features=[f"n{len(params)}", "falsy-default" if any(defaults[p] is not NO and not defaults[p] for p in params) else "no-falsy-default"],
                key=[sig_text(params, defaults), cb[bi]],
            )
        ev.extra["spellings"] = ev.extra.get("spellings", 0) + len(calls)
    return mod



def sig_text(params, defaults):
    return ", ".join(p if defaults[p] is NO else f"{p}={defaults[p]!r}" for p in params)


def mk_case(params, defaults, bindings, limit=None):
    c = {
        "params": list(params),
        "defaults": {p: (NO if defaults[p] is NO else enc(defaults[p])) for p in params},
        "bindings": [{p: enc(b[p]) for p in params} for b in bindings],
    }
    if limit:
        c["limit"] = limit
    return c


def exhaustive_cases(tier):
    """All shapes with 1-2 parameters x all bindings over a reduced value set."""
    vals = VALUES if tier == "thorough" else [None, 0, 1, False, "", "x", "__none__", 0.0, ()]
    dflt = [NO] + (DEFAULTS if tier == "thorough" else [None, 0, False, "", "x", ()])
    cases = []
    for d in dflt:
        bs = [{"a": v} for v in vals]
        if d is not NO:
            bs.append({"a": d})
        cases.append(mk_case(["a"], {"a": d}, bs))
    for da, db in itertools.product(dflt, repeat=2):
        if da is not NO and db is NO:
            continue
        for va in vals[:: 2 if tier != "thorough" else 1]:
            bs = [{"a": va, "b": v} for v in vals]
            if db is not NO:
                bs.append({"a": va, "b": db})
            cases.append(mk_case(["a", "b"], {"a": da, "b": db}, bs))
            if len(cases) % 3 == 0:
                # the same shape with parameter names whose alphabetical order is not the declared one
                ren = {"a": "value", "b": "factor"}
                cases.append(mk_case(["value", "factor"], {"value": da, "factor": db}, [{ren[k]: v for k, v in b.items()} for b in bs]))
    return cases


SIGNED_SRC = """import dds


def f(a, b=0):
    return ('f', a, b)


def w0():
    return dds.keep('/s', f, {x})


def w1():
    return dds.keep('/s', f, {y})


def w2():
    return dds.keep('/s', f, a={x})


def w3():
    return dds.keep('/s', f, a={y})


def w4():
    return dds.keep('/s', f, 7, b={x})


def w5():
    return dds.keep('/s', f, 7, {y})
"""


def check_signed_literals(ev):
    """Signed literals written in the source of an evaluated function (-3 is not a constant for the parser): whatever route the
    analysis takes for them, a kept call with -x must not be served the result stored for x (and vice versa), on one store."""
    e = env()
    for (x, y) in [("3", "-3"), ("-3", "3"), ("2.5", "-2.5"), ("-1", "1"), ("0.0", "-0.0"), ("+4", "-4"), ("- 5", "5")]:
        mod = e.load(SIGNED_SRC.format(x=x, y=y))
        e.cap.inner.__init__()
        want = {"w0": ("f", eval(x), 0), "w1": ("f", eval(y), 0), "w2": ("f", eval(x), 0), "w3": ("f", eval(y), 0),
                "w4": ("f", 7, eval(x)), "w5": ("f", 7, eval(y))}
        for name in ("w0", "w1", "w2", "w3", "w4", "w5", "w1", "w0"):
            got = e.dds.eval(getattr(mod, name))
            if repr(got) != repr(want[name]):   # repr: 0.0 and -0.0 compare equal
                case = {"signed": [x, y], "fun": name}
                raise Violation(f"source literals {x} / {y}: the kept call in {name} returned {got!r}, plain execution gives {want[name]!r} "
                                f"(the result stored for the other sign was served)", case)
        ev.case({"signed_literals": [x, y]}, True, features=["signed-literals-in-source"])


UNPACK_SRC = """import dds


def f(a, b=0, c=5):
    return ('f', a, b, c)


def u0():
    return dds.keep('/u', f, 1)


def u1():
    return dds.keep('/u', f, 1, **{{"b": {x}}})


def u2():
    return dds.keep('/u', f, 1, **{{"b": {y}}})


def u3():
    cfg = {{"b": {x}}}
    return dds.keep('/u', f, 1, **cfg)


def u4():
    cfg = {{"b": {y}, "c": {x}}}
    return dds.keep('/u', f, 1, **cfg)


def u5():
    return dds.keep('/u', f, *[1, {x}])


def u6():
    return dds.keep('/u', f, *[1, {y}])


def u7():
    xs = [1, {x}, {y}]
    return dds.keep('/u', f, *xs)


def u8():
    return dds.keep('/u', f, 1, c={y}, **{{"b": {x}}})
"""


def check_unpacked_arguments(ev):
    """Kept calls seen in source that bind parameters through an unpacked dictionary or sequence (**{...}, **cfg, *[...], *xs):
    calls that bind different values must not share a stored result (the unpacked parameters are not at their defaults)."""
    e = env()
    for (x, y) in [("2", "3"), ("0", "2"), ("None", "0"), ("'k'", "'m'")]:
        mod = e.load(UNPACK_SRC.format(x=x, y=y))
        e.cap.inner.__init__()
        vx, vy = eval(x), eval(y)
        want = {"u0": ("f", 1, 0, 5), "u1": ("f", 1, vx, 5), "u2": ("f", 1, vy, 5), "u3": ("f", 1, vx, 5), "u4": ("f", 1, vy, vx),
                "u5": ("f", 1, vx, 5), "u6": ("f", 1, vy, 5), "u7": ("f", 1, vx, vy), "u8": ("f", 1, vx, vy)}
        for name in ("u0", "u1", "u2", "u3", "u4", "u5", "u6", "u7", "u8", "u2", "u1", "u0", "u6"):
            got = e.dds.eval(getattr(mod, name))
            if repr(got) != repr(want[name]):
                case = {"unpacked": [x, y], "fun": name}
                raise Violation(f"unpacked arguments in source ({x} / {y}): the kept call in {name} returned {got!r}, plain execution gives {want[name]!r} "
                                f"(a result stored for another binding was served)", case)
        ev.case({"unpacked_arguments": [x, y]}, True, features=["unpacked-arguments-in-source"])


def shard_exhaustive(idx, n, tier, seed):
    ev = Ev()
    if idx == 0:
        check_signed_literals(ev)
    if idx == 1:
        check_unpacked_arguments(ev)
    cases = exhaustive_cases(tier)
    for i in range(idx, len(cases), n):
        check_case(cases[i], ev)
    ev.exhaustive = tier == "thorough"   # the quick tier strides the value set of the two-parameter shapes
    return ev, None


def case_strategy():
    from hypothesis import strategies as st

    @st.composite
    def gen(draw):
        n = draw(st.integers(1, 4))
        # (the declared order of the parameters is not always the alphabetical order of their names)
        params = draw(st.sampled_from([["a", "b", "c", "d"], ["value", "factor", "offset", "base"], ["z", "y", "x", "w"]]))[:n]
        ndef = draw(st.integers(0, n))
        defaults = {}
        for i, p in enumerate(params):
            defaults[p] = draw(st.sampled_from(DEFAULTS)) if i >= n - ndef else NO
        base = {}
        for p in params:
            if defaults[p] is not NO and draw(st.booleans()):
                base[p] = defaults[p]
            else:
                base[p] = draw(st.sampled_from(VALUES))
        bindings = [base]
        nvar = draw(st.integers(1, 3))
        for _ in range(nvar):
            p = draw(st.sampled_from(params))
            v = draw(st.sampled_from(VALUES + [defaults[p]] if defaults[p] is not NO else VALUES))
            b = dict(base)
            b[p] = v
            if all(exact(b[q]) == exact(base[q]) for q in params):
                continue
            if not any(all(exact(b[q]) == exact(o[q]) for q in params) for o in bindings):
                bindings.append(b)
        c = mk_case(params, defaults, bindings, limit=60 if n == 4 else None)
        with_default = [p for p in params if defaults[p] is not NO]
        if with_default and draw(st.integers(0, 2)) == 0:
            c["redefine"] = {}
            for p in with_default:
                if draw(st.booleans()):
                    nv = draw(st.sampled_from([v for v in DEFAULTS if exact(v) != exact(defaults[p])]))
                    c["redefine"][p] = enc(nv)
            if not c["redefine"]:
                del c["redefine"]
        return c

    return gen()


def shard_random(idx, n, tier, seed, count):
    ev = Ev()
    v = common.hyp_drive(case_strategy(), lambda c: check_case(c, ev), seed * 1000 + 13 * 100 + idx, count, ev)
    return ev, v


def run(tier, seed, scale=1.0):
    ev = Ev()
    e1, v1, err1 = common.run_shards(shard_exhaustive, 16, tier=tier, seed=seed)
    ev.merge(e1)
    count = int((40 if tier == "quick" else 800) * scale)
    e2, v2, err2 = common.run_shards(shard_random, 16, tier=tier, seed=seed, count=count)
    ev.merge(e2)
    return ev, v1 + v2, err1 + err2


def replay(case):
    if "signed" in case:
        return check_signed_literals(Ev())
    if "unpacked" in case:
        return check_unpacked_arguments(Ev())
    check_case(case, None)
