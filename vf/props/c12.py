"""C12 - the in-memory object cache is invisible and bounded.

Generated: operation sequences (has/fetch/store blob, sync/fetch paths, drop references) over a small key
pool x capacities x base store kinds.  Oracle: lock-step differential against a bare store of the same kind
(same answers, same exception types); bound: number of live fetched objects (weakrefs, after gc) <= capacity.
"""
import gc
import os
import sys
import weakref

from .. import common
from ..common import Ev, Violation

ID = "C12"
LEVEL = "exploration"
RULE = (
    "Hypothesis-generated operation lists (length <= 30) over keys k0..k4 and paths /p0../p2 with values None / weakref-able "
    "objects / str, capacities {1,2,3,10,unbounded}, base store {memory, local}; each list is applied in lock step to "
    "LRUCacheStore(base) and to a bare store of the same kind and every answer compared with its type; values include objects the file "
    "codecs cannot serialise (failing store_blob), objects whose truth value raises, blobs written to the underlying store behind the wrapper, bytearrays (read back as bytes by the file codecs) and lists that the caller modifies "
    "after store_blob; on the local base the number of "
    "live fetched objects is counted after every step. Also dds.set_store(..., cache_objects=c) for c in "
    "{None,False,True,0,-1,1,2,5}. Non-trivial = the sequence fetches or probes a key before it is stored and again after, "
    "or fetches more distinct stored keys than the capacity; distinct by the op list."
)
ASSUMPTIONS = [
    "the bare store of the same kind is the reference (its own correctness is C08)",
    "the handle of the configured store is obtained through dds._api._store() (there is no public getter)",
]

KEYS = ["k0", "k1", "k2", "k3", "k4"]
PATHS = ["/p0", "/p1", "/d/p2"]
CAPS = [1, 2, 3, 10, sys.maxsize // 2]


class Obj(object):
    """weakref-able, picklable value"""

    def __init__(self, n):
        self.n = n

    def __eq__(self, o):
        return isinstance(o, Obj) and o.n == self.n

    def __hash__(self):
        return hash(self.n)

    def __repr__(self):
        return f"Obj({self.n})"


class Bad(Obj):
    """a value the file codecs cannot serialise: store_blob of a file-backed store fails"""

    def __reduce__(self):
        raise TypeError("this object cannot be pickled")


class Amb(Obj):
    """a value whose truth value is undefined (like an array with several elements)"""

    def __bool__(self):
        raise ValueError("the truth value of this object is ambiguous")


def mkval(j):
    if isinstance(j, dict):
        if "amb" in j:
            return Amb(j["amb"])
        if "bad" in j:
            return Bad(j["bad"])
        if "ba" in j:
            return bytearray(j["ba"].encode())
        if "lst" in j:
            return [j["lst"]]
        return Obj(j["obj"])
    return j


def typed(r):
    """answers are compared with their type (bytearray(b'x') == b'x')"""
    return (r[0], type(r[1]).__name__, r[1]) if r[0] == "ok" else r


def _flatten(l):
    out = []
    for o in l:
        if o[0] == "sf":  # store immediately followed by a fetch (makes cache fills frequent)
            out += [["store", o[1]], ["fetch", o[1]]]
        elif o[0] == "smf":  # store, then the caller modifies the object it passed, then fetch
            out += [["store", o[1]], ["mutate", o[1]], ["fetch", o[1]]]
        elif o[0] == "ppsp":  # two paths committed and queried together, one of them re-committed, both queried again
            p, q, ka, kb, kc = o[1], o[2], o[3], o[4], o[5]
            if p != q:
                out += [["sync", {p: ka, q: kb}], ["paths", [p, q]], ["sync", {p: kc}], ["paths", [p, q]], ["paths", [q, p]]]
        elif o[0] == "aba":  # a path committed to key A, then B, then A again, then queried
            p, ka, kb = o[1], o[2], o[3]
            out += [["sync", {p: ka}], ["sync", {p: kb}], ["sync", {p: ka}], ["paths", [p]]]
        else:
            out.append(list(o))
    return out


def ops_strategy():
    from hypothesis import strategies as st

    key = st.sampled_from(KEYS)
    val = st.one_of(st.none(), st.builds(lambda n: {"obj": n}, st.integers(0, 50)), st.builds(lambda n: {"obj": n}, st.integers(0, 50)), st.sampled_from(["", "txt"]),
                    st.builds(lambda n: {"bad": n}, st.integers(0, 5)), st.builds(lambda n: {"amb": n}, st.integers(0, 5)), st.sampled_from([{"ba": ""}, {"ba": "xy"}]), st.builds(lambda n: {"lst": n}, st.integers(0, 5)))
    op = st.one_of(
        st.tuples(st.just("has"), key),
        st.tuples(st.just("fetch"), key),
        st.tuples(st.just("fetch"), key),
        st.tuples(st.just("store"), key),
        st.tuples(st.just("sf"), key),
        st.tuples(st.just("sf"), key),
        st.tuples(st.just("smf"), key),
        st.tuples(st.just("behind"), key),
        st.tuples(st.just("behind"), key),
        st.tuples(st.just("aba"), st.sampled_from(PATHS), key, key),
        st.tuples(st.just("ppsp"), st.sampled_from(PATHS), st.sampled_from(PATHS), key, key, key),
        st.tuples(st.just("paths"), st.permutations(PATHS).map(lambda l: list(l)[:2])),
        st.tuples(st.just("sync"), st.dictionaries(st.sampled_from(PATHS), key, min_size=1, max_size=2)),
        st.tuples(st.just("paths"), st.lists(st.sampled_from(PATHS), min_size=1, max_size=2)),
    )
    general = st.fixed_dictionaries(
        {
            "cap": st.sampled_from(CAPS),
            "base": st.sampled_from(["memory", "local"]),
            # a key is a content address: it always holds the same value (store_blob is idempotent)
            "vals": st.fixed_dictionaries({k: val for k in KEYS}),
            "ops": st.lists(op, min_size=1, max_size=30).map(_flatten),
        }
    )
    # fetch storms: every key is present (one or two of them hold None, the others distinct weakref-able objects) and the
    # operations are mostly fetches - the cache is full most of the time and None-valued blobs enter a full cache
    storm_op = st.one_of(st.tuples(st.just("fetch"), key), st.tuples(st.just("fetch"), key), st.tuples(st.just("fetch"), key), st.tuples(st.just("has"), key))
    storm = st.fixed_dictionaries(
        {
            "cap": st.sampled_from([1, 2, 3]),
            "base": st.just("local"),
            "vals": st.integers(1, 2).map(lambda n: {k: (None if i < n else {"obj": i}) for i, k in enumerate(KEYS)}),
            "ops": st.tuples(st.permutations(KEYS), st.lists(storm_op, min_size=4, max_size=24)).map(lambda t: [["store", k] for k in t[0]] + [list(o) for o in t[1]]),
        }
    )
    return st.one_of(general, general, general, storm)


def mk_base(kind, scratch):
    from dds.store import MemoryStore, LocalFileStore

    if kind == "memory":
        return MemoryStore()
    d = scratch.sub()
    return LocalFileStore(os.path.join(d, "internal"), os.path.join(d, "data"))


def call(f):
    try:
        return ("ok", f())
    except BaseException as e:  # noqa
        from dds.structures import DDSException

        return ("exc", "DDSException" if isinstance(e, DDSException) else type(e).__name__)


def classify(ops):
    stored = set()
    probed_absent = set()
    nt = False
    fetched = set()
    for o in ops:
        if o[0] in ("has", "fetch"):
            if o[1] not in stored:
                probed_absent.add(o[1])
            elif o[1] in probed_absent:
                nt = True
            if o[0] == "fetch" and o[1] in stored:
                fetched.add(o[1])
        elif o[0] == "store":
            stored.add(o[1])
    return nt, fetched


def check_case(case, ev=None, scratch=None):
    from dds._lru_store import LRUCacheStore
    from collections import OrderedDict

    own = scratch is None
    scratch = scratch or common.Scratch("vf-c12")
    try:
        cap = case["cap"]
        under = mk_base(case["base"], scratch)
        wrapped = LRUCacheStore(under, cap)
        bare = mk_base(case["base"], scratch)
        live = []
        given = {}
        for step, o in enumerate(case["ops"]):
            kind = o[0]
            if kind == "has":
                a, b = call(lambda: wrapped.has_blob(o[1])), call(lambda: bare.has_blob(o[1]))
            elif kind == "fetch":
                a, b = call(lambda: wrapped.fetch_blob(o[1])), call(lambda: bare.fetch_blob(o[1]))
                if a[0] == "ok" and isinstance(a[1], Obj):
                    live.append(weakref.ref(a[1]))
                a, b = typed(a), typed(b)
            elif kind == "store":
                v, v2 = mkval(case["vals"][o[1]]), mkval(case["vals"][o[1]])
                if isinstance(v, list):
                    given.setdefault(o[1], []).extend([v, v2])
                a, b = call(lambda: wrapped.store_blob(o[1], v, None)), call(lambda: bare.store_blob(o[1], v2, None))
                del v, v2
            elif kind == "behind":
                # the blob reaches the underlying store through another handle (another process, another store object)
                vb = mkval(case["vals"][o[1]])
                if isinstance(vb, Bad) and case["base"] == "local":
                    continue
                a, b = call(lambda: under.store_blob(o[1], vb, None)), call(lambda: bare.store_blob(o[1], mkval(case["vals"][o[1]]), None))
                del vb
            elif kind == "mutate":
                # the caller modifies the objects it handed to store_blob (file-backed base only: a memory store keeps the
                # very object, and a later store_blob of the same content address would then disagree with it)
                if case["base"] == "local":
                    for obj in given.get(o[1], []):
                        obj.append("modified after store_blob")
                continue
            elif kind == "sync":
                d = OrderedDict(sorted(o[1].items()))
                a, b = call(lambda: wrapped.sync_paths(d)), call(lambda: bare.sync_paths(d))
            elif kind == "paths":
                # the answer is an ordered mapping: compared with its order
                a, b = call(lambda: list(wrapped.fetch_paths(list(o[1])).items())), call(lambda: list(bare.fetch_paths(list(o[1])).items()))
            else:
                raise common.HarnessError(kind)
            if a != b:
                raise Violation(
                    f"cache-wrapped {case['base']} store (capacity {cap}) answered {a} but the bare store {b} at step {step} {o} of {case['ops']}",
                    case,
                )
            del a, b
            if case["base"] == "local":
                gc.collect()
                n_live = len({id(r()) for r in live if r() is not None})
                if n_live > cap:
                    raise Violation(
                        f"capacity {cap} cache retains {n_live} fetched objects after step {step} of {case['ops']}", case
                    )
        if ev is not None:
            nt, fetched = classify(case["ops"])
            ev.case(case, nt or len(fetched) > cap, features=[f"cap{min(cap, 99)}", case["base"]] + (["absent-then-stored"] if nt else []) + (["over-capacity"] if len(fetched) > cap else []))
    finally:
        if own:
            scratch.clean()


def check_set_store(ev, scratch):
    """Decoding of the cache_objects option, judged through behaviour."""
    import dds

    for c in [None, False, True, 0, -1, 1, 2, 5]:
        d = scratch.sub()
        dds.set_store("local", internal_dir=os.path.join(d, "i"), data_dir=os.path.join(d, "d"), cache_objects=c)
        store = dds._api._store()
        for i in range(12):
            store.store_blob(f"key{i}", Obj(i), None)
        refs = []
        for i in range(12):
            v = store.fetch_blob(f"key{i}")
            if v != Obj(i):
                raise Violation(f"set_store(cache_objects={c!r}): fetch returned {v!r}", {"set_store": repr(c)})
            refs.append(weakref.ref(v))
            del v
        # second round must still return the right objects
        for i in range(12):
            v = store.fetch_blob(f"key{i}")
            if v != Obj(i):
                raise Violation(f"set_store(cache_objects={c!r}): second fetch returned {v!r}", {"set_store": repr(c)})
            refs.append(weakref.ref(v))
            del v
        gc.collect()
        n_live = len({id(r()) for r in refs if r() is not None})
        bound = None
        if c in (None, False, 0) and not (c is True):
            bound = 0
        elif isinstance(c, int) and not isinstance(c, bool) and c > 0:
            bound = c
        if bound is not None and n_live > bound:
            raise Violation(
                f"set_store(cache_objects={c!r}) retains {n_live} fetched objects, documented bound {bound}", {"set_store": repr(c)}
            )
        if c in (True, -1) and c is not False and n_live == 0:
            raise Violation(f"set_store(cache_objects={c!r}) does not cache at all", {"set_store": repr(c)})
        ev.case({"set_store_cache_objects": repr(c), "live_after_12_fetches": n_live}, True, features=["set_store"])
    dds.set_store("memory")


def shard(idx, n, tier, seed, count):
    ev = Ev()
    scratch = common.Scratch("vf-c12")
    try:
        if idx == 0:
            check_set_store(ev, scratch)
        v = common.hyp_drive(ops_strategy(), lambda c: check_case(c, ev, scratch), seed * 1000 + 1200 + idx, count, ev)
    finally:
        scratch.clean()
    return ev, v


def run(tier, seed, scale=1.0):
    count = int((150 if tier == "quick" else 900) * scale)
    return common.run_shards(shard, 16, tier=tier, seed=seed, count=count)


def replay(case):
    if "set_store" in case:
        with common.Scratch("vf-c12") as s:
            check_set_store(Ev(), s)
    else:
        check_case(case)
