"""C17 - results are read back with the codec that wrote them, text and bytes verbatim.

Generated: values of every storable result type x codec registrations before the write, between write and
read, and in the (fresh) reading process x store kinds {local, local+LRU, DBFS(fake)}.
Oracle: round trip equality + type through dds.keep / dds.load in the writing process and in a fresh process;
user codecs log their use; for str / bytes the blob file and the file under the data directory are verbatim.
"""
import json
import os

from .. import common
from ..common import Ev, Violation
from ..harness import proc
from ..jsonval import enc, dec

ID = "C17"
LEVEL = "exploration"
RULE = (
    "Hypothesis-generated values: str (empty, non-ASCII, astral, CR/LF mixes, up to 1 MiB), bytes, bytearray, subclasses of str / bytes carrying state of their own, None, picklable "
    "objects, pandas frames (int/float/bool/str columns, default or labelled/named index), instances of a class with a "
    "registered file codec, of a class with a registered generic codec and of one whose generic codec writes a directory of part files; registrations drawn from {codec for another type, "
    "second codec for the same type under another reference, codec taking over str for new writes, subclass of the builtin "
    "string codec that inherits its reference} applied between write and read and, in generated order, in the fresh reading "
    "process; store in {local, local+LRU, DBFS over the fake}. The value goes through a kept data function, dds.load in the "
    "same process, a second keep (served from the store) and dds.load in a fresh process; in some cases another codec then takes over "
    "the type and the function is kept and loaded on a second, fresh store of the same process. Non-trivial = at least one "
    "registration between write and read or in the reader, or a value that is empty / non-ASCII / contains CR / is a frame "
    "with a non-default index; distinct by (value, registrations, store)."
)
ASSUMPTIONS = [
    "the reading process registers at least the codec that wrote a user-typed value (otherwise the coded PROTOCOL_NOT_FOUND is the documented outcome)",
    "bytearray may be read back as bytes",
    "DBFS is the in-process fake; generic (non-file) user codecs are not used with it",
]

MODULE_SRC = """import dds
import vlog
from xt import holder as xh


@dds.data_function('/out/v')
def f():
    vlog.rec('f')
    return xh.VALUE
"""


def value_strategy():
    from hypothesis import strategies as st

    texts = st.one_of(
        st.sampled_from(["", " ", "\n", "\r\n", "a\rb", "line1\r\nline2\n\rx", "é", "日本語", "\U0001F600 astral", "tab\tend ", "﻿bom", "x" * 70000]),
        st.text(max_size=40),
        st.text(alphabet="ab\r\né\U0001F600", max_size=12),
    )
    # 1 MiB of UTF-8 and more; in the last two a multi-byte character straddles every multiple of 2**20 bytes
    big = st.sampled_from(["µ" * (2 ** 19), "a" + "µ" * (2 ** 19 + 10), "€" * 400000])
    blobs = st.one_of(st.sampled_from([b"", b"\x00", b"\r\n", b"\xff\xfe", bytes(range(256))]), st.binary(max_size=64))
    picklable = st.recursive(
        st.one_of(st.integers(-5, 5), st.floats(allow_nan=False), st.text(max_size=5), st.booleans()),
        lambda c: st.one_of(st.lists(c, max_size=3), st.tuples(c, c), st.dictionaries(st.text(max_size=3), c, max_size=3)),
        max_leaves=6,
    )
    col = st.one_of(
        st.lists(st.integers(-1000, 1000), min_size=1, max_size=4).map(lambda l: ["int", l]),
        st.lists(st.floats(allow_nan=False, allow_infinity=False, width=32), min_size=1, max_size=4).map(lambda l: ["float", l]),
        st.lists(st.booleans(), min_size=1, max_size=4).map(lambda l: ["bool", l]),
        st.lists(st.text(alphabet="abé ", max_size=4), min_size=1, max_size=4).map(lambda l: ["str", l]),
    )
    frame = st.fixed_dictionaries({
        "cols": st.dictionaries(st.sampled_from(["a", "b", "c d", "é"]), col, min_size=1, max_size=3),
        "index": st.sampled_from(["default", "labels", "named", "gaps"]),
    })
    return st.one_of(
        texts.map(lambda s: {"k": "str", "v": s}),
        texts.map(lambda s: {"k": "str", "v": s}),
        st.integers(0, 7).flatmap(lambda i: big if i == 0 else texts).map(lambda s: {"k": "str", "v": s}),
        blobs.map(lambda b: {"k": "bytes", "v": enc(b)}),
        blobs.map(lambda b: {"k": "bytearray", "v": enc(b)}),
        st.tuples(st.text(max_size=6), st.integers(0, 3)).map(lambda t: {"k": "strsub", "v": t[0], "tag": t[1]}),
        st.tuples(st.binary(max_size=6), st.integers(0, 3)).map(lambda t: {"k": "bytessub", "v": enc(t[0]), "tag": t[1]}),
        st.integers(0, 9).map(lambda n: {"k": "galaxy", "n": n}),
        st.just({"k": "none"}),
        picklable.map(lambda v: {"k": "pickle", "v": enc(v)}),
        frame.map(lambda f: {"k": "frame", "v": f}),
        st.integers(0, 99).map(lambda n: {"k": "moon", "n": n}),
        st.integers(0, 99).map(lambda n: {"k": "sun", "n": n}),
    )


def case_strategy():
    from hypothesis import strategies as st

    @st.composite
    def gen(draw):
        v = draw(value_strategy())
        store = draw(st.sampled_from(["local", "local", "local-lru", "dbfs"]))
        if v["k"] in ("sun", "galaxy") and store == "dbfs":
            store = "local"
        pre = ["moon", "sun", "galaxy"] + (["other"] if draw(st.booleans()) else [])
        ops = draw(st.lists(st.sampled_from(["other", "moon_alt", "altstr", "shout", "moon", "sun"]), max_size=3, unique=True))
        reader = draw(st.permutations(["moon", "sun", "galaxy", "moon_alt", "altstr", "shout", "other"]))
        reader = reader[: draw(st.integers(0, 7))]
        for need in ("moon", "sun", "galaxy"):
            if v["k"] == need and need not in reader:
                reader = list(reader) + [need] if draw(st.booleans()) else [need] + list(reader)
        case = {"value": v, "store": store, "pre": pre, "ops": ops, "reader": list(reader)}
        if v["k"] == "moon" and store != "dbfs" and draw(st.booleans()):
            # first written by the generic pickle codec (no codec registered for the class yet); the blob then loses its
            # metadata and the file codec of the class is registered before the result is stored again
            case["orphan"] = "moon"
            case["pre"] = [x for x in pre if x != "moon"]
            case["ops"] = [o for o in ops if o not in ("moon", "moon_alt")]
            case["reader"] = ["moon"] + [x for x in case["reader"] if x not in ("moon", "moon_alt")]
        elif v["k"] == "str" and store != "dbfs" and draw(st.integers(0, 3)) == 0:
            # the blob loses its metadata (as after a writer killed between the two writes) and a codec that takes
            # over str for new writes is registered before the result is stored again
            case["orphan"] = True
            case["ops"] = [o for o in ops if o != "altstr"]
            if "altstr" not in case["reader"]:
                case["reader"] = ["altstr"] + case["reader"]
        elif v["k"] in ("str", "moon") and store != "dbfs" and draw(st.integers(0, 2)) == 0:
            take = "altstr" if v["k"] == "str" else "moon_alt"
            if take not in case["ops"] and take not in case["pre"]:
                case["second_store"] = take
        return case

    return gen()


def build_value(spec):
    from ..harness.c17_helpers import Moon, Sun

    k = spec["k"]
    if k == "str":
        return spec["v"]
    if k in ("bytes", "bytearray"):
        b = dec(spec["v"])
        return bytearray(b) if k == "bytearray" else bytes(b)
    if k == "none":
        return None
    if k == "pickle":
        return dec(spec["v"])
    if k == "strsub":
        from ..harness.c17_helpers import TaggedStr

        return TaggedStr(spec["v"], spec["tag"])
    if k == "bytessub":
        from ..harness.c17_helpers import TaggedBytes

        return TaggedBytes(bytes(dec(spec["v"])), spec["tag"])
    if k == "galaxy":
        from ..harness.c17_helpers import Galaxy

        return Galaxy(spec["n"])
    if k == "moon":
        return Moon(spec["n"])
    if k == "sun":
        return Sun(spec["n"])
    if k == "frame":
        import pandas as pd

        n = min(len(c[1]) for c in spec["v"]["cols"].values())
        data = {}
        for name, (tp, vals) in spec["v"]["cols"].items():
            vals = vals[:n]
            dt = {"int": "int64", "float": "float64", "bool": "bool", "str": "object"}[tp]
            data[name] = pd.Series(vals, dtype=dt)
        df = pd.DataFrame(data)
        ix = spec["v"]["index"]
        if ix == "labels":
            df.index = [f"r{i}" for i in range(n)]
        elif ix == "named":
            df.index = pd.Index([f"k{i}" for i in range(n)], name="key")
        elif ix == "gaps":
            df.index = [i * 3 + 1 for i in range(n)]
        return df
    raise ValueError(k)


def same(a, b):
    try:
        import pandas as pd

        if isinstance(a, pd.DataFrame) or isinstance(b, pd.DataFrame):
            return isinstance(a, pd.DataFrame) and isinstance(b, pd.DataFrame) and a.equals(b) and list(a.columns) == list(b.columns) \
                and a.index.equals(b.index) and a.index.name == b.index.name
    except ImportError:
        pass
    if isinstance(b, bytearray):
        return isinstance(a, (bytes, bytearray)) and bytes(a) == bytes(b)
    return type(a) == type(b) and a == b and getattr(a, "tag", None) == getattr(b, "tag", None)


def short(v):
    r = repr(v)
    return r if len(r) < 120 else r[:117] + "..."


# ------------------------------------------------------------------ worker side

def _write_phase(case, store_dir):
    import dds
    import importlib
    from ..harness import worker, c17_helpers as H

    H.USE_LOG[:] = []
    worker.cmd_set_store(kind=case["store"], dir=store_dir, cache=2 if case["store"] == "local-lru" else None, raw=True)
    store = dds._api._store()
    codecs = H.make_codecs()
    for n in case["pre"]:
        H.register(store, n, codecs)
    value = build_value(case["value"])
    holder = importlib.import_module("xt.holder")
    holder.VALUE = value
    mod = importlib.import_module("pk.m0")
    out = {"steps": []}

    def step(name, fn):
        try:
            got = fn()
            out["steps"].append((name, same(got, value), short(got), None))
        except BaseException as e:
            out["steps"].append((name, False, None, f"{type(e).__name__}: {e}"[:400]))

    step("keep", mod.f)
    if case.get("orphan"):
        import glob

        for m in glob.glob(os.path.join(store_dir, "internal", "blobs", "*.meta")):
            os.remove(m)
        H.register(store, "moon" if case["orphan"] == "moon" else "altstr", codecs)
        if hasattr(store, "_cache"):
            store._cache._cache.clear()   # nothing of the lost write survives in memory either
        step("keep again after the blob lost its metadata and another codec took over the type", mod.f)
    for n in case["ops"]:
        H.register(store, n, codecs)
    step("load in the writing process", lambda: dds.load("/out/v"))
    holder.VALUE = "<<must not be recomputed>>"
    step("second keep (served from the store)", mod.f)
    if case.get("second_store"):
        # another codec takes over the type, then the same function is kept on a second, fresh store in the same process:
        # the same key now designates a blob written by the other codec
        H.register(store, case["second_store"], codecs)
        worker.cmd_set_store(kind=case["store"], dir=store_dir + "_second", cache=2 if case["store"] == "local-lru" else None, raw=True)
        holder.VALUE = value
        step(f"keep on a second store after {case['second_store']} took over the type", mod.f)
        step("load from the second store", lambda: dds.load("/out/v"))
        holder.VALUE = "<<must not be recomputed>>"
        step("second keep on the second store", mod.f)
    out["log"] = list(H.USE_LOG)
    return out


def _read_phase(case, store_dir):
    import dds
    from ..harness import worker, c17_helpers as H

    H.USE_LOG[:] = []
    worker.cmd_set_store(kind=case["store"], dir=store_dir, cache=2 if case["store"] == "local-lru" else None, raw=True)
    store = dds._api._store()
    codecs = H.make_codecs()
    for n in case["reader"]:
        H.register(store, n, codecs)
    value = build_value(case["value"])
    out = {"steps": []}
    try:
        got = dds.load("/out/v")
        out["steps"].append(("load in a fresh process", same(got, value), short(got), None))
    except BaseException as e:
        out["steps"].append(("load in a fresh process", False, None, f"{type(e).__name__}: {e}"[:400]))
    out["log"] = list(H.USE_LOG)
    return out


# ------------------------------------------------------------------ driver side

def write_sources(root):
    files = {"pk/__init__.py": "", "pk/m0.py": MODULE_SRC, "xt/__init__.py": "", "xt/holder.py": "VALUE = None\n"}
    for rel, content in files.items():
        p = os.path.join(root, rel)
        os.makedirs(os.path.dirname(p), exist_ok=True)
        with open(p, "w") as f:
            f.write(content)


def check_case(case, ev=None, scratch=None):
    own = scratch is None
    scratch = scratch or common.Scratch("vf-c17")
    try:
        root = scratch.sub()
        store_dir = scratch.sub()
        write_sources(root)
        what = f"value={json.dumps(case['value'])[:160]} store={case['store']} registered-before={case['pre']} between={case['ops']} reader={case['reader']}"
        for phase, fn in (("write", "_write_phase"), ("read", "_read_phase")):
            w = proc.Worker()
            try:
                w.call("init", root=root, accepted=["pk"], store=None)
                out = w.call("call", module="vf.props.c17", func=fn, args=[case, store_dir])
            finally:
                w.close()
            for (name, ok, got, err) in out["steps"]:
                if err is not None:
                    raise Violation(f"{what}: {name} failed: {err}", case)
                if not ok:
                    raise Violation(f"{what}: {name} returned {got} (value or type differs from what was kept)", case)
            k = case["value"]["k"]
            if k in ("moon", "sun", "galaxy"):
                ref = {"moon": "user.moon_file", "sun": "user.sun", "galaxy": "user.galaxy_parts"}[k]
                des = [r for (op, r) in out["log"] if op == "de"]
                if any(r != ref for r in des if r.startswith("user.moon") or r in ("user.sun", "user.galaxy_parts")) or (phase == "read" and ref not in des):
                    raise Violation(f"{what}: the value written by codec {ref} was decoded by {des}", case)
        # a frame is also read by a real fresh interpreter that imports nothing but dds (pandas is not loaded before dds looks for a codec)
        if case["value"]["k"] == "frame" and case["store"] in ("local", "local-lru") and not case["reader"]:
            import subprocess
            import sys

            script = ("import json, sys\nimport dds\n"
                      f"dds.set_store('local', internal_dir={os.path.join(store_dir, 'internal')!r}, data_dir={os.path.join(store_dir, 'data')!r})\n"
                      "v = dds.load('/out/v')\n"
                      "print(json.dumps({'type': type(v).__name__, 'frame': v.to_json(orient='split') if hasattr(v, 'to_json') else repr(v)}), flush=True)\n"
                      "import os\nos._exit(0)\n")   # (no interpreter tear-down: native threads of the parquet library may abort there)
            env = dict(os.environ)
            env["PYTHONPATH"] = common.REPO
            pr = subprocess.run([sys.executable, "-W", "ignore", "-c", script], env=env, cwd=root, stdout=subprocess.PIPE, stderr=subprocess.PIPE)
            lines_ = [ln for ln in pr.stdout.decode().strip().splitlines() if ln.startswith("{")]
            if not lines_:
                err_ = pr.stderr.decode()
                if "Traceback" not in err_:
                    lines_ = None   # the interpreter died without a Python error (native abort): inconclusive, not a violation
                    if ev is not None:
                        ev.extra["fresh_reader_inconclusive"] = ev.extra.get("fresh_reader_inconclusive", 0) + 1
            if lines_ is not None:
                if not lines_:
                    raise Violation(f"{what}: a fresh interpreter that only imports dds cannot load the frame: {err_[-400:]}", case)
                got = json.loads(lines_[-1])
                want = build_value(case["value"])
                if got["type"] != "DataFrame" or json.loads(got["frame"]) != json.loads(want.to_json(orient="split")):
                    raise Violation(f"{what}: a fresh interpreter that only imports dds loads {got['type']} {got['frame'][:200]}", case)
        # verbatim files
        k = case["value"]["k"]
        if k in ("str", "bytes", "bytearray") and not case.get("orphan"):
            want = case["value"]["v"].encode("utf-8") if k == "str" else bytes(dec(case["value"]["v"]))
            if case["store"] == "dbfs":
                data_file = os.path.join(store_dir, "dbfsroot", "data", "out", "v")
                blobs = os.path.join(store_dir, "dbfsroot", "internal", "blobs")
            else:
                data_file = os.path.join(store_dir, "data", "out", "v")
                blobs = os.path.join(store_dir, "internal", "blobs")
            try:
                with open(data_file, "rb") as f:
                    got = f.read()
            except OSError as e:
                raise Violation(f"{what}: the file under the data directory is not readable: {e}", case)
            if got != want:
                raise Violation(f"{what}: the file under the data directory holds {got[:60]!r}..., not the kept {k} verbatim ({want[:60]!r}...)", case)
            files = [n for n in os.listdir(blobs) if not n.endswith(".meta") and ".tmp" not in n]
            for n in files:
                with open(os.path.join(blobs, n), "rb") as f:
                    if f.read() != want:
                        raise Violation(f"{what}: the blob file does not hold the kept {k} verbatim", case)
        if ev is not None:
            v = case["value"]
            special = (v["k"] == "str" and (v["v"] == "" or "\r" in v["v"] or any(ord(c) > 127 for c in v["v"][:200]))) or \
                      (v["k"] in ("bytes", "bytearray") and len(dec(v["v"])) == 0) or (v["k"] == "frame" and v["v"]["index"] != "default")
            slim = dict(case)
            if v["k"] == "str" and len(v["v"]) > 200:
                slim = dict(case, value={"k": "str", "v": v["v"][:50] + f"...({len(v['v'])} chars)"})
            ev.case(slim, bool(case["ops"] or case["reader"] or special),
                    features=["type:" + v["k"], "store:" + case["store"]] + ["between:" + o for o in case["ops"]] + (["special-value"] if special else []) + (["orphan-blob+codec-takeover"] if case.get("orphan") else []) + (["second-store-after-takeover"] if case.get("second_store") else []),
                    key=case)
    finally:
        if own:
            scratch.clean()


def shard(idx, n, tier, seed, count):
    ev = Ev()
    try:  # imported once here so that the forked workers inherit the loaded modules
        import pandas  # noqa
        import pyarrow  # noqa
        import pyarrow.parquet  # noqa
    except ImportError:
        pass
    scratch = common.Scratch("vf-c17")
    try:
        v = common.hyp_drive(case_strategy(), lambda c: check_case(c, ev, scratch), seed * 1000 + 1700 + idx, count, ev)
    finally:
        scratch.clean()
    return ev, v


def run(tier, seed, scale=1.0):
    count = int((25 if tier == "quick" else 500) * scale)
    return common.run_shards(shard, 16, tier=tier, seed=seed, count=count)


def replay(case):
    check_case(case)
