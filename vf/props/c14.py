"""C14 - exactly the accepted modules are tracked.

Grid (enumerated, sharded): package depth 1..6 x accepted prefix (each prefix of the module path, the module
itself, or a look-alike that is NOT a prefix) x number of other accepted packages {0,1,2,5,40} x import form x
edit (function body / tracked variable on the accepted side; function / variable of a non-accepted sibling
package; function of a neighbour package whose name extends an accepted component).
Oracle: the signature of the pipeline changes iff the edit is in a module covered by an accepted prefix (and the
value follows); a data function of a non-accepted module is refused with a DDSException naming the module.
"""
import itertools
import os

from .. import common
from ..common import Ev, Violation
from ..harness import proc

ID = "C14"
LEVEL = "exploration"
RULE = (
    "Enumerated grid: depth d in 1..6, accepted name = each dotted prefix of p1.p2...pd.leaf (d+1 choices) or a look-alike "
    "(last component + 'z', which covers nothing), other accepted packages in {0,1,2,5,40}, import form in {from-import, "
    "alias, module attribute, full dotted attribute, module alias}, edit in {accepted function body, accepted tracked variable, "
    "non-accepted sibling function, non-accepted sibling variable, neighbour package function}. Each point: evaluate in a fresh "
    "process, apply the edit, evaluate in another fresh process, compare the captured signature of the pipeline and its value; "
    "plus: the data function of the deep module called directly is evaluated iff its module is accepted, otherwise refused with "
    "a DDSException that names the module and runs nothing. Quick tier strides the grid; thorough enumerates it. Non-trivial = "
    "depth >= 3 or an accepted-count regime different from the test suite's; distinct by grid point."
)
ASSUMPTIONS = [
    "'names the module' = the message contains the dotted or slash-separated module path or its top-level package name",
]

FORMS = ["bare", "alias", "modattr", "fullattr", "modalias", "facade"]
EDITS = ["acc_fun", "acc_var", "non_fun", "non_var", "nb_fun", "pkgsib_fun"]
COUNTS = [0, 1, 2, 5, 40]


def grid(tier):
    pts = []
    for d in range(1, 7):
        for k in range(1, d + 2):
            for lookalike in (False, True):
                for cnt in COUNTS:
                    for form in FORMS:
                        for ed in EDITS:
                            pts.append({"d": d, "k": k, "lookalike": lookalike, "count": cnt, "form": form, "edit": ed,
                                        "by_object": (d + k + cnt + len(form)) % 2 == 0, "extra_sub": (d + k + EDITS.index(ed)) % 2 == 0})
    if tier != "thorough":
        # keep every (d, k, lookalike, count) combination at least once; stride forms x edits
        out = []
        for i, p in enumerate(pts):
            j = (p["d"] * 7 + p["k"] * 3 + p["count"] + (1 if p["lookalike"] else 0)) % 36
            if FORMS.index(p["form"]) * 6 + EDITS.index(p["edit"]) == j:
                out.append(p)
        pts = out
    # the same points with namespace packages below the top-level package, for the fully dotted import form
    lm = [p for p in pts if p["form"] in ("bare", "modattr", "modalias") and not p.get("by_object")]
    pts += [dict(p, local_method=True) for p in lm[:: (2 if tier == "thorough" else 4)]]
    pts += [dict(p, namespace=True) for k_, p in enumerate(pts) if p["form"] == "fullattr" and p["d"] >= 2 and not p.get("by_object") and (tier == "thorough" or k_ % 2 == 0)]
    return pts


def parts_of(d):
    return [f"p{i}" for i in range(1, d + 1)] + ["leaf"]


def accepted_name(pt):
    parts = parts_of(pt["d"])[: pt["k"]]
    if pt["lookalike"]:
        parts = parts[:-1] + [parts[-1] + "z"]
    return ".".join(parts)


def leaf_is_accepted(pt):
    return not pt["lookalike"]


def neighbour_parts(pt):
    """a package whose name extends the last accepted component by one character (must NOT be covered)"""
    parts = parts_of(pt["d"])[: pt["k"]]
    if pt["lookalike"]:
        parts = parts[:-1] + [parts[-1] + "z"]
    return parts[:-1] + [parts[-1] + "x", "nb"]


def render(pt, state):
    """state: dict(ver, lv, sver, sv, nver)"""
    parts = parts_of(pt["d"])
    files = {}
    for i in range(1, len(parts)):
        if pt.get("namespace") and i >= 2:
            continue   # packages below the top one are namespace packages (PEP 420: a directory without __init__.py)
        files["/".join(parts[:i]) + "/__init__.py"] = ""
    files["/".join(parts) + ".py"] = (
        "import dds\nimport vlog\n\nLV = %r\n\n\ndef lf():\n    vlog.rec('lf')\n    return ('lf', %d, LV)\n\n\n"
        "@dds.data_function('/deep/ldata')\ndef ldata():\n    vlog.rec('ldata')\n    return ('ldata', lf())\n\n\n"
        # (an unrelated function that carries the name under which the importing module aliases lf)
        "def lf_al():\n    return ('unrelated', 'lf_al')\n" % (state["lv"], state["ver"])
    )
    files["/".join(parts[:-1] + ["pkgsib"]) + ".py"] = "import vlog\n\n\ndef psf():\n    vlog.rec('psf')\n    return ('psf', %d)\n" % state.get("pver", 0)
    files["other/__init__.py"] = ""
    files["other/sib.py"] = ("import dds\nimport vlog\n\nSV = %r\n\n\ndef sf():\n    vlog.rec('sf')\n    return ('sf', %d, SV)\n\n\n"
                             "@dds.data_function('/other/sdata')\ndef sdata():\n    vlog.rec('sdata')\n    return ('sdata',)\n" % (state["sv"], state["sver"]))
    nb = neighbour_parts(pt)
    for i in range(1, len(nb)):
        files.setdefault("/".join(nb[:i]) + "/__init__.py", "")
    files["/".join(nb) + ".py"] = "import vlog\n\n\ndef nf():\n    vlog.rec('nf')\n    return ('nf', %d)\n" % state["nver"]
    mod = ".".join(parts)
    form = pt["form"]
    if form == "bare":
        imp, call = f"from {mod} import lf", "lf()"
    elif form == "alias":
        imp, call = f"from {mod} import lf as lf_al", "lf_al()"
    elif form == "modattr":
        parent = ".".join(parts[:-1])
        imp, call = f"from {parent} import leaf", "leaf.lf()"
    elif form == "fullattr":
        imp, call = f"import {mod}", f"{mod}.lf()"
    elif form == "facade":
        # the accepted function is reached as an attribute of a NON-accepted module that re-exports it
        files["facade.py"] = f"from {mod} import lf\n"
        imp, call = "import facade", "facade.lf()"
    else:
        imp, call = f"import {mod} as leaf_al", "leaf_al.lf()"
    files["rootpk/__init__.py"] = ""
    files["rootpk/main.py"] = (
        f"import dds\nimport vlog\n{imp}\nfrom other import sib\nimport {'.'.join(nb)} as nbm\nimport {'.'.join(parts[:-1] + ['pkgsib'])} as psm\n\n\n"
        # (a function of this module carries the name that the leaf module uses for its tracked variable)
        "def LV():\n    return 'main.LV'\n\n\n"
        "@dds.data_function('/out')\ndef out():\n    vlog.rec('out')\n"
        + (f"    return ('out', {call}, sib.sf(), nbm.nf(), psm.psf(), LV())[:5]\n\n\n" if not pt.get("local_method") else
           # the functions are only reached inside the arguments of method calls on a local variable
           f"    rows = ['out']\n    rows.append({call})\n    rows.extend([sib.sf(), nbm.nf()])\n    rows.insert(len(rows), psm.psf())\n    return tuple(rows)\n\n\n") +
        "@dds.data_function('/out2')\ndef out2():\n    vlog.rec('out2')\n    return ('out2', sib.sdata())\n"
    )
    return files


def apply_edit(state, ed):
    s = dict(state)
    if ed == "acc_fun":
        s["ver"] += 1
    elif ed == "acc_var":
        s["lv"] += 10
    elif ed == "non_fun":
        s["sver"] += 1
    elif ed == "non_var":
        s["sv"] += 10
    elif ed == "nb_fun":
        s["nver"] += 1
    elif ed == "pkgsib_fun":
        s["pver"] = s.get("pver", 0) + 1
    return s


def write(root, files):
    for rel, content in files.items():
        p = os.path.join(root, rel)
        os.makedirs(os.path.dirname(p), exist_ok=True)
        with open(p, "w") as f:
            f.write(content)


def evaluate(root, store_dir, pt, module, func, twice=False):
    w = proc.Worker()
    try:
        accepted = ["rootpk"] + [f"dummy{i}.pkg" for i in range(pt["count"])]
        if pt.get("extra_sub") and not pt["lookalike"] and pt["k"] <= pt["d"]:
            # a sub-package of the accepted package is accepted too (it sorts before the next component of the module)
            accepted.append(accepted_name(pt) + ".a0")
        by_obj = pt.get("by_object") and not pt["lookalike"]
        if not by_obj:
            accepted.append(accepted_name(pt))
        w.call("init", root=root, accepted=accepted, store={"kind": "local", "dir": store_dir})
        if by_obj:
            # dds.accept_module also takes the module object
            w.call("call", module="vf.props.c14", func="_accept_object", args=[accepted_name(pt)])
        r = w.call("eval", module=module, func=func, style="direct")
        if twice:
            # the same call again in the same process (after the first outcome was observed)
            r2 = w.call("eval", module=module, func=func, style="direct")
            r["second"] = r2
        return r
    finally:
        w.close()


def _accept_object(name):
    import importlib
    import dds

    dds.accept_module(importlib.import_module(name))
    return True


def pkgsib_is_accepted(pt):
    """the sibling module p1...pd.pkgsib is covered iff the accepted name is a package prefix (not the leaf module itself)"""
    return (not pt["lookalike"]) and pt["k"] <= pt["d"]


def check_point(pt, ev=None, scratch=None):
    own = scratch is None
    scratch = scratch or common.Scratch("vf-c14")
    try:
        root = scratch.sub()
        store = scratch.sub()
        st0 = {"ver": 0, "lv": 1, "sver": 0, "sv": 1, "nver": 0}
        write(root, render(pt, st0))
        r0 = evaluate(root, store, pt, "rootpk.main", "out")
        if r0["exc"] is not None:
            raise Violation(f"{pt}: baseline evaluation raised {r0['exc']['type']}: {r0['exc']['msg'][:300]}", pt)
        if r0["value"] != ("out", ("lf", 0, 1), ("sf", 0, 1), ("nf", 0), ("psf", 0)):
            raise Violation(f"{pt}: baseline value {r0['value']!r}", pt)
        st1 = apply_edit(st0, pt["edit"])
        write(root, render(pt, st1))
        r1 = evaluate(root, store, pt, "rootpk.main", "out")
        if r1["exc"] is not None:
            raise Violation(f"{pt}: evaluation after the edit raised {r1['exc']['type']}: {r1['exc']['msg'][:300]}", pt)
        must_change = (pt["edit"] in ("acc_fun", "acc_var") and leaf_is_accepted(pt)) or (pt["edit"] == "pkgsib_fun" and pkgsib_is_accepted(pt))
        changed = r0["sigs"].get("/out") != r1["sigs"].get("/out")
        acc = accepted_name(pt)
        if must_change and not changed:
            raise Violation(
                f"accepted={acc!r} (+{pt['count']} other packages), module {'.'.join(parts_of(pt['d']))} imported as {pt['form']}: "
                f"edit {pt['edit']} of the accepted module did not change the signature of /out (value {r1['value']!r})", pt)
        if must_change and r1["value"] != ("out", ("lf", st1["ver"], st1["lv"]), ("sf", 0, 1), ("nf", 0), ("psf", st1.get("pver", 0))):
            raise Violation(f"accepted={acc!r}: after {pt['edit']} the value is {r1['value']!r}", pt)
        if not must_change and changed:
            where = {"non_fun": "other.sib", "non_var": "other.sib", "nb_fun": ".".join(neighbour_parts(pt)),
                     "pkgsib_fun": ".".join(parts_of(pt["d"])[:-1] + ["pkgsib"])}.get(pt["edit"], ".".join(parts_of(pt["d"])))
            raise Violation(
                f"accepted={acc!r} (+{pt['count']} other packages): edit {pt['edit']} of the NON-accepted module {where} changed the signature of /out", pt)
        # data function of the deep module called directly
        r2 = evaluate(root, scratch.sub(), pt, ".".join(parts_of(pt["d"])), "ldata", twice=True)
        if not leaf_is_accepted(pt) and r2["second"]["exc"] is None:
            raise Violation(f"accepted={acc!r}: the data function of the non-accepted module {'.'.join(parts_of(pt['d']))} was refused once, then evaluated untracked "
                            f"when called again in the same process (returned {r2['second']['value']!r})", pt)
        if leaf_is_accepted(pt):
            if r2["exc"] is not None or r2["value"] != ("ldata", ("lf", st1["ver"], st1["lv"])):
                raise Violation(f"accepted={acc!r} (+{pt['count']} other packages): data function of the accepted module {'.'.join(parts_of(pt['d']))} "
                                f"was not evaluated: {r2['exc'] or r2['value']!r}", pt)
        else:
            mod = ".".join(parts_of(pt["d"]))
            if r2["exc"] is None:
                raise Violation(f"accepted={acc!r}: data function of the non-accepted module {mod} was evaluated untracked (returned {r2['value']!r})", pt)
            if not r2["exc"]["is_dds"]:
                raise Violation(f"accepted={acc!r}: data function of the non-accepted module {mod} raised {r2['exc']['type']} instead of a DDS error", pt)
            msg = r2["exc"]["msg"]
            if not (mod in msg or mod.replace(".", "/") in msg or parts_of(pt["d"])[0] in msg):
                raise Violation(f"accepted={acc!r}: the refusal does not name the module {mod}: {msg[:300]}", pt)
            if r2["log"]:
                raise Violation(f"accepted={acc!r}: user functions ran before the refusal: {r2['log']}", pt)
        # a data function of a non-accepted module reached at run time from an accepted pipeline
        r3 = evaluate(root, scratch.sub(), pt, "rootpk.main", "out2")
        if r3["exc"] is None:
            raise Violation(f"accepted={acc!r}: the data function other.sib.sdata of a non-accepted module was evaluated untracked inside an accepted pipeline (returned {r3['value']!r})", pt)
        if not r3["exc"]["is_dds"] or "other" not in r3["exc"]["msg"]:
            raise Violation(f"accepted={acc!r}: the data function of the non-accepted module other.sib reached inside a pipeline was refused with {r3['exc']['type']}: {r3['exc']['msg'][:200]} (not a DDS error naming the module)", pt)
        if "sdata" in r3["log"]:
            raise Violation(f"accepted={acc!r}: the body of the non-accepted data function ran before the refusal: {r3['log']}", pt)
        if ev is not None:
            ev.case(pt, pt["d"] >= 3 or pt["count"] != 2, features=[f"depth{pt['d']}", f"count{pt['count']}"] + (["namespace-packages"] if pt.get("namespace") else []) + (["reached-in-arguments-of-a-local-method-call"] if pt.get("local_method") else []) + [ "edit:" + pt["edit"], "form:" + pt["form"], "accept-by-object" if pt.get("by_object") and not pt["lookalike"] else "accept-by-name",
                                                                  "lookalike" if pt["lookalike"] else f"prefix{pt['k']}"])
    finally:
        if own:
            scratch.clean()


def check_dynamic_accept(ev, scratch):
    """accept_module called AFTER a first (refused / untracked) evaluation in the same process must take effect,
    and accepting a longer name first must not un-accept or shadow a shorter look-alike accepted later."""
    for order in (["p1x", "p1"], ["p1", "p1x"], ["p10", "p1"], ["p1", "p10"]):
        root = scratch.sub()
        files = {}
        for pk in set(order):
            files[f"{pk}/__init__.py"] = ""
            files[f"{pk}/m.py"] = f"import dds\nimport vlog\n\n\n@dds.data_function('/{pk}/d')\ndef d():\n    vlog.rec('{pk}.d')\n    return ('{pk}',)\n"
        write(root, files)
        w = proc.Worker()
        try:
            w.call("init", root=root, accepted=[], store={"kind": "memory"})
            first = w.call("eval", module=f"{order[0]}.m", func="d", style="direct")
            if first["exc"] is None:
                raise Violation(f"data function of non-accepted module {order[0]}.m was evaluated", {"dynamic": order})
            for pk in order:
                w.call("call", module="dds", func="accept_module", args=[pk])
            for pk in order:
                r = w.call("eval", module=f"{pk}.m", func="d", style="direct")
                if r["exc"] is not None or r["value"] != (pk,):
                    raise Violation(f"after accepting {order} in this order, the data function of {pk}.m is refused or wrong: {r['exc'] or r['value']!r}", {"dynamic": order})
            ev.case({"dynamic_accept_order": order}, True, features=["dynamic-accept"])
        finally:
            w.close()


def shard(idx, n, tier, seed):
    ev = Ev()
    scratch = common.Scratch("vf-c14")
    try:
        if idx == 0:
            check_dynamic_accept(ev, scratch)
        pts = grid(tier)
        for i, pt in enumerate(pts):
            if (i + seed) % n == idx:
                check_point(pt, ev, scratch)
    finally:
        scratch.clean()
    ev.exhaustive = tier == "thorough"
    return ev, None


def run(tier, seed, scale=1.0):
    return common.run_shards(shard, 16, tier=tier, seed=seed)


def replay(case):
    if "dynamic" in case:
        with common.Scratch("vf-c14") as s:
            check_dynamic_accept(Ev(), s)
    else:
        check_point(case)
