"""C07 - processes sharing a local store never observe partial or foreign results.

Generated: scenarios of 2-3 simulated dds processes (forked children under the FS-operation proxy) on the same
local store directories x schedules at file-system-operation granularity (random lists of ints, shrinkable;
and systematic enumeration of all schedules with <= 2 preemptions).  Oracle: every keep / load that returns,
returns the complete value of a version that was legitimately current; no process fails because of the other;
afterwards a fresh process sees correct values for every path.
"""
import os

from .. import common
from ..common import Ev, Violation
from ..harness import sched
from ..pipelang import model as M
from ..pipelang import gen as G
from . import c01, c06

ID = "C07"
LEVEL = "exploration"
RULE = (
    "Hypothesis-generated scenarios: kind in {same keep on a cold (non-existing) store, same keep on a created store, keep of "
    "changed code vs a loader of the committed paths, keep of changed code vs a process evaluating the old code, same internal "
    "directory with two data directories, two keepers + one loader}, a small PipeLang pipeline (+ one edit), object cache on/off. "
    "Each process = store creation + evaluation (+ loads) under the proxy (every os.* / open / raw read / half write / close is "
    "one step). Schedules: Hypothesis lists of ints (one step of runnable[x % n] each), and for two-process scenarios every "
    "schedule 'A runs i steps, B runs j steps, A finishes, B finishes' and its mirror on a stride (quick: ~40 per scenario; "
    "thorough: up to 600 per scenario), and for the three-process scenario the family 'keeper A runs i steps, keeper B finishes, A runs j more steps, "
    "the loader runs completely, A finishes' on a stride. Checked per schedule: no process raises (a loader may get the documented missing-path DDSException only for "
    "a path never committed before), every evaluation returns its model value, every load returns the old or the new complete "
    "value, then an observer and a final evaluating process see complete / correct values for every path. Non-trivial = the "
    "schedule preempts a process between a stat (exists / isdir / realpath) and its following mutating operation; distinct by (scenario, schedule)."
)
ASSUMPTIONS = [
    "user functions are deterministic, so two writers of one signature produce equal bytes",
    "interleaving granularity = Python-level os/open calls of the dds I/O modules, raw writes split in two",
    "a child that does not reach its next boundary within the timeout is 'blocked' and the schedule is inconclusive (never a violation)",
]

KINDS = ["cold_same", "cold_same", "created_same", "rekeep_vs_loader", "rekeep_vs_oldeval", "two_views", "three", "three"]
STAT = ("path.exists", "path.isdir", "path.lexists", "path.realpath", "path.isfile", "path.islink", "stat", "lstat")


def scenario_strategy(opts):
    from hypothesis import strategies as st

    @st.composite
    def gen(draw):
        prog = draw(G.programs(opts))
        ents = G.entries(prog)
        root, style = draw(st.sampled_from(ents[-2:] if len(ents) > 1 else ents))
        old = prog
        for _ in range(draw(st.integers(1, 2))):
            old = M.apply_edit(old, draw(G.edits(old, root, kinds=["setvar", "bump", "setlit", "bump"], opts=opts)))
        return {"prog": prog, "old": old, "root": root, "style": style, "kind": draw(st.sampled_from(KINDS)),
                "cache": draw(st.sampled_from([None, None, 2])),
                "schedules": draw(st.lists(st.lists(st.integers(0, 2), min_size=5, max_size=160), min_size=2, max_size=4)),
                "sys_seed": draw(st.integers(0, 10 ** 6))}

    return gen()


def build(sc, base):
    """returns (list of process descriptors, pre-committed values, expected per process)"""
    prog, old, root, style, cache = sc["prog"], sc["old"], sc["root"], sc["style"], sc["cache"]
    root_new, root_old = os.path.join(base, "src_new"), os.path.join(base, "src_old")
    c06.write_prog(root_new, prog)
    c06.write_prog(root_old, old)
    live = os.path.join(base, "live")
    exp_new, it_new = M.expected_value(prog, root)
    exp_old, it_old = M.expected_value(old, root)
    kind = sc["kind"]
    pre = {}
    procs = []

    def keeper(src, p, store=live, data=None):
        fn = c06.process_fn(src, store, p, root, style, cache)
        if data is not None:
            fn = process_fn_data(src, store, data, p, root, style, cache)
        return fn

    if kind in ("cold_same", "created_same"):
        if kind == "created_same":
            os.makedirs(os.path.join(live, "internal", "blobs"))
            os.makedirs(os.path.join(live, "data"))
        procs = [("keeper-new", keeper(root_new, prog), exp_new), ("keeper-new", keeper(root_new, prog), exp_new)]
    elif kind in ("rekeep_vs_loader", "rekeep_vs_oldeval", "three"):
        r = sched.run_plain(c06.process_fn(root_old, live, old, root, style, cache))
        if r[0] != "ok":
            raise Violation(f"populating the store raised {r[1]}", sc)
        pre = dict(it_old.kept)
        loader = c06.process_fn(root_new, live, prog, root, style, cache, evals=0, loads=sorted(set(pre) | set(it_new.kept)))
        if kind == "rekeep_vs_loader":
            procs = [("keeper-new", keeper(root_new, prog), exp_new), ("loader", loader, None)]
        elif kind == "rekeep_vs_oldeval":
            procs = [("keeper-new", keeper(root_new, prog), exp_new), ("keeper-old", keeper(root_old, old), exp_old)]
        else:
            procs = [("keeper-new", keeper(root_new, prog), exp_new), ("keeper-new", keeper(root_new, prog), exp_new), ("loader", loader, None)]
    elif kind == "two_views":
        procs = [("keeper-new", keeper(root_new, prog, data="dataA"), exp_new), ("keeper-new", keeper(root_new, prog, data="dataB"), exp_new)]
    return procs, pre, it_old, it_new, live, root_new


def process_fn_data(root_dir, store_dir, data_name, prog, root, style, cache):
    f = prog["funcs"][root]
    modname, fname = M.modname(prog, f["mod"]), f["name"]
    pkg = prog.get("pkg", M.PKG)

    def fn():
        import importlib
        import sys

        sys.path.insert(0, root_dir)
        import dds
        import vlog

        dds.accept_module(pkg)
        dds.set_store("local", internal_dir=os.path.join(store_dir, "internal"), data_dir=os.path.join(store_dir, data_name), cache_objects=cache)
        fun = getattr(importlib.import_module(modname), fname)
        vlog.take()
        val = dds.eval(fun) if style == "eval" else fun()
        return {"evals": [(val, vlog.take())], "loads": {}, "loads_after": {}}

    return fn


def window_preempted(trace):
    """did some process get preempted between a stat and its next (mutating) operation?"""
    last = {}
    for idx, (slot, op, path) in enumerate(trace):
        if slot in last:
            pidx, pop = last[slot]
            if pop.startswith(STAT) and op.startswith(c06.MUTATING) and idx - pidx > 1:
                return True
        last[slot] = (idx, op)
    return False


def judge(sc, run, procs, pre, it_old, it_new, live, root_new, schedule_desc):
    what = f"scenario {sc['kind']} cache={sc['cache']} schedule={schedule_desc}"
    case = dict(sc, failing_schedule=schedule_desc)
    if run["blocked"]:
        return False
    old_vals, new_vals = dict(it_old.kept), dict(it_new.kept)
    for slot, ((role, _fn, exp), res) in enumerate(zip(procs, run["results"])):
        if res[0] != "ok":
            info = res[1] or {}
            tail = " | ".join(f"{s}:{op}" for (s, op, _p) in run["trace"][-6:])
            raise Violation(f"{what}: process {slot} ({role}) failed with {info.get('type', res[0])}: {str(info.get('msg'))[:300]} [last steps: {tail}]", case)
        out = res[1]
        for (val, _log) in out["evals"]:
            if val != exp:
                raise Violation(f"{what}: process {slot} ({role}) evaluated to {val!r}, expected {exp!r}", case)
        for p, (st, v) in list(out["loads"].items()) + list(out.get("loads_after", {}).items()):
            if st != "ok":
                if p in pre:
                    raise Violation(f"{what}: process {slot} ({role}) could not load the committed path {p}: {v}", case)
                continue
            allowed = [x[p] for x in (old_vals, new_vals) if p in x]
            if v not in allowed:
                raise Violation(f"{what}: process {slot} ({role}) loaded {v!r} from {p}; complete values are {allowed!r}", case)
    # afterwards: observer then a final evaluation by a fresh process
    datas = ["dataA", "dataB"] if sc["kind"] == "two_views" else [None]
    for dn in datas:
        if dn is None:
            allp = sorted(set(pre) | set(new_vals))
            obs = sched.run_plain(c06.process_fn(root_new, live, sc["prog"], sc["root"], sc["style"], sc["cache"], evals=0, loads=allp))
            if obs[0] != "ok":
                raise Violation(f"{what}: opening the store afterwards raised {obs[1]}", case)
            for p, (st, v) in obs[1]["loads"].items():
                allowed = [x[p] for x in (old_vals, new_vals) if p in x]
                if st != "ok" or v not in allowed:
                    raise Violation(f"{what}: after all processes finished the path {p} loads {v!r} ({st}); complete values are {allowed!r}", case)
            fin = sched.run_plain(c06.process_fn(root_new, live, sc["prog"], sc["root"], sc["style"], sc["cache"], evals=1, loads=allp))
        else:
            fin = sched.run_plain(process_fn_data(root_new, live, dn, sc["prog"], sc["root"], sc["style"], sc["cache"]))
        if fin[0] != "ok":
            raise Violation(f"{what}: a fresh process evaluating afterwards raised {fin[1]['type']}: {fin[1]['msg'][:300]}", case)
        exp_new, _ = M.expected_value(sc["prog"], sc["root"])
        if fin[1]["evals"][0][0] != exp_new:
            raise Violation(f"{what}: a fresh process evaluating afterwards got {fin[1]['evals'][0][0]!r}, expected {exp_new!r}", case)
        for p, (st, v) in fin[1].get("loads_after", {}).items():
            want = new_vals.get(p, pre.get(p))
            if st != "ok" or v != want:
                raise Violation(f"{what}: after the final evaluation the path {p} loads {v!r} ({st}), expected {want!r}", case)
    return True


def check_scenario(sc, ev=None, scratch=None, tier="quick"):
    own = scratch is None
    scratch = scratch or common.Scratch("vf-c07")
    import dds  # noqa: loaded here so that the forked children need not import it
    try:
        schedules = []
        if "failing_schedule" in sc:
            schedules = [("replay", sc["failing_schedule"])]
        else:
            schedules = [("random", s) for s in sc["schedules"]]
        # measure the trace lengths once (sequential run) to place systematic preemptions
        def one(schedule_desc, schedule):
            base = scratch.sub()
            procs, pre, it_old, it_new, live, root_new = build(sc, base)
            run = sched.run([p[1] for p in procs], schedule=schedule)
            ok = judge(sc, run, procs, pre, it_old, it_new, live, root_new, schedule_desc)
            if ev is not None and ok:
                nt = window_preempted(run["trace"])
                ev.case({"kind": sc["kind"], "cache": sc["cache"], "schedule": schedule_desc if len(str(schedule_desc)) < 300 else str(schedule_desc)[:300],
                         "steps": len(run["trace"])}, nt,
                        features=["kind:" + sc["kind"], "sched:" + (schedule_desc[0] if isinstance(schedule_desc, (list, tuple)) and isinstance(schedule_desc[0], str) else "random")]
                        + (["preempted-in-window"] if nt else []), key=[M.pkey(sc["prog"]), sc["kind"], sc["cache"], schedule_desc])
            import shutil

            shutil.rmtree(base, ignore_errors=True)
            return run

        if "failing_schedule" in sc:
            d = sc["failing_schedule"]
            one(d, expand(d))
            return
        first = one(["sequential"], [])
        nops = first["nops"]
        for (_k, s) in schedules:
            one(["random", s], s)
        if len(nops) == 2:
            na, nb = nops
            pairs = [(a, i, j) for a in (0, 1) for i in range(1, (na if a == 0 else nb)) for j in range(1, (nb if a == 0 else na) + 1)]
            # quick: ~40 schedules of the family per scenario; thorough: ~600
            stride = max(1, len(pairs) // (600 if tier == "thorough" else 40))
            off = sc["sys_seed"] % stride
            for (a, i, j) in pairs[off::stride]:
                d = ["preempt", a, i, j]
                one(d, expand(d))
        elif len(nops) == 3:
            # two keepers and a loader: keeper a runs i steps, the other keeper finishes, keeper a runs j more steps,
            # the loader runs completely, keeper a finishes
            triples = [(a, i, j) for a in (0, 1) for i in range(1, nops[a]) for j in range(0, nops[a] - i + 1)]
            stride = max(1, len(triples) // (700 if tier == "thorough" else 60))
            off = sc["sys_seed"] % stride
            for (a, i, j) in triples[off::stride]:
                d = ["preempt3", a, i, j]
                one(d, expand(d))
    finally:
        if own:
            scratch.clean()


# ---- a kept reader (dds.load inside a kept function) racing with a re-keep of the path it loads ---------------------

READER_GRID = [(pl, pv) for pl in ("kept", "kept_helper", "kept_inline_arg", "helper") for pv in (False, True)]


def reader_strategy(slot=None):
    from hypothesis import strategies as st

    # the placement of the load and its spelling are spread over the shards (8 combinations), the rest is drawn
    head = st.sampled_from(READER_GRID) if slot is None else st.just(READER_GRID[slot % len(READER_GRID)])
    return st.fixed_dictionaries({
        "reader": st.tuples(head, st.sampled_from(["data", "keepcall"]), st.integers(0, 3)).map(lambda t: [t[0][0], t[1], t[2], t[0][1]]),
        "cache": st.sampled_from([None, None, 2]),
        "schedules": st.lists(st.lists(st.integers(0, 1), min_size=5, max_size=120), min_size=1, max_size=3),
        "sys_seed": st.integers(0, 10 ** 6),
    })


def check_reader_scenario(sc, ev=None, scratch=None, tier="quick"):
    """Process A re-keeps /src/v with changed code while process B evaluates a pipeline whose (kept) reader loads /src/v.
    B must return the reader's result for the old or for the new content; afterwards, whatever /src/v is made to serve by later
    (sequential) processes, the reader's result must be the one for that content - a result computed from one content must never
    sit under the signature of the other."""
    from . import c09

    own = scratch is None
    scratch = scratch or common.Scratch("vf-c07")
    import dds  # noqa
    import shutil

    placement, producer, noise = sc["reader"][:3]
    pathvar = bool(sc["reader"][3]) if len(sc["reader"]) > 3 else False   # the path is loaded through a module-level Path constant
    prog_old, root, p_entry, reader_kept = c09.build(placement, "earlier_eval", producer, noise, False, False, pathvar)
    prog_new = M.apply_edit(prog_old, ["setvar", 0, 2])
    pstyle = "direct" if M.is_data(prog_old["funcs"][p_entry]) else "eval"
    cache = sc["cache"]
    src = {}
    root_val = {}
    rd_val = {}
    for tag, pg in (("old", prog_old), ("new", prog_new)):
        _, itp = M.expected_value(pg, p_entry)
        src[tag] = itp.kept["/src/v"]
        root_val[tag], itr = M.expected_value(pg, root, committed={"/src/v": src[tag]})
        rd_val[tag] = itr.kept.get("/rd")
    what0 = f"scenario kept-reader-vs-rekeep reader={sc['reader']} cache={cache}"
    try:
        def one(desc, schedule):
            what = f"{what0} schedule={desc}"
            case = dict(sc, failing_schedule=desc)
            base = scratch.sub()
            try:
                live = os.path.join(base, "live")
                dirs = {}
                for tag, pg in (("old", prog_old), ("new", prog_new)):
                    dirs[tag] = os.path.join(base, "src_" + tag)
                    c06.write_prog(dirs[tag], pg)
                r = sched.run_plain(c06.process_fn(dirs["old"], live, prog_old, p_entry, pstyle, cache))
                if r[0] != "ok":
                    raise Violation(f"{what}: populating the store raised {r[1]}", case)
                a = c06.process_fn(dirs["new"], live, prog_new, p_entry, pstyle, cache)
                b = c06.process_fn(dirs["new"], live, prog_new, root, "eval", cache)
                run = sched.run([a, b], schedule=schedule)
                if run["blocked"]:
                    return run
                for slot, res in enumerate(run["results"]):
                    if res[0] != "ok":
                        info = res[1] or {}
                        raise Violation(f"{what}: process {slot} ({'re-keep of /src/v' if slot == 0 else 'reader pipeline'}) failed with {info.get('type', res[0])}: {str(info.get('msg'))[:300]}", case)
                got_b = run["results"][1][1]["evals"][0][0]
                if got_b not in (root_val["old"], root_val["new"]):
                    raise Violation(f"{what}: the reader pipeline returned {got_b!r}; the results for the old / new content of /src/v are {root_val['old']!r} / {root_val['new']!r}", case)
                # afterwards, sequentially: /src/v is made to serve the old content again, then the new one
                for tag in ("old", "new", "old"):
                    r1 = sched.run_plain(c06.process_fn(dirs[tag], live, prog_old if tag == "old" else prog_new, p_entry, pstyle, cache))
                    r2 = sched.run_plain(c06.process_fn(dirs[tag], live, prog_old if tag == "old" else prog_new, root, "eval", cache, loads=["/src/v"] + (["/rd"] if rd_val[tag] is not None else [])))
                    for rr in (r1, r2):
                        if rr[0] != "ok":
                            raise Violation(f"{what}: a later process ({tag} code) raised {rr[1]['type']}: {rr[1]['msg'][:300]}", case)
                    got = r2[1]["evals"][0][0]
                    if got != root_val[tag]:
                        raise Violation(f"{what}: after both processes finished, /src/v was made to serve its {tag} content and the reader pipeline returned {got!r}, expected {root_val[tag]!r} "
                                        f"(the reader pipeline had returned {'the old' if got_b == root_val['old'] else 'the new'} result during the race)", case)
                    la = r2[1]["loads_after"]
                    if la["/src/v"] != ("ok", src[tag]) or (rd_val[tag] is not None and la["/rd"] != ("ok", rd_val[tag])):
                        raise Violation(f"{what}: after the later evaluation with the {tag} code the paths load {la}", case)
                if ev is not None:
                    nt = window_preempted(run["trace"])
                    ev.case({"kind": "reader_vs_rekeep", "reader": sc["reader"], "cache": cache, "schedule": desc if len(str(desc)) < 300 else str(desc)[:300], "steps": len(run["trace"])}, nt,
                            features=["kind:reader_vs_rekeep", "sched:" + str(desc[0]), "reader-saw:" + ("old" if got_b == root_val["old"] else "new")] + (["preempted-in-window"] if nt else []),
                            key=[sc["reader"], cache, desc])
                return run
            finally:
                shutil.rmtree(base, ignore_errors=True)

        if "failing_schedule" in sc:
            d = sc["failing_schedule"]
            one(d, expand(d))
            return
        first = one(["sequential"], [])
        for s_ in sc["schedules"]:
            one(["random", s_], s_)
        na, nb = first["nops"]
        pairs = [(a_, i, j) for a_ in (0, 1) for i in range(1, (na if a_ == 0 else nb)) for j in range(1, (nb if a_ == 0 else na) + 1)]
        stride = max(1, len(pairs) // (600 if tier == "thorough" else 60))
        off = sc["sys_seed"] % stride
        for (a_, i, j) in pairs[off::stride]:
            d = ["preempt", a_, i, j]
            one(d, expand(d))
    finally:
        if own:
            scratch.clean()


def expand(d):
    if d[0] == "preempt3":
        _, a, i, j = d
        return [f"s{a}"] * i + [f"f{1 - a}"] + [f"s{a}"] * j + ["f2", f"f{a}"]
    if d[0] == "preempt":
        _, a, i, j = d
        return [a] * i + [1 - a] * j + [a] * 5000
    if d[0] == "random":
        return d[1]
    if d[0] == "sequential":
        return []
    return d


def shard(idx, n, tier, seed, count):
    ev = Ev()
    import dds  # noqa
    scratch = common.Scratch("vf-c07")
    opts = {"exclude": common.open_features(ID), "max_funcs": 3, "max_mods": 1, "rets": True, "classes": False, "data_den": 2}
    try:
        v = common.hyp_drive(scenario_strategy(opts), lambda c: check_scenario(c, ev, scratch, tier), seed * 1000 + 700 + idx, count, ev, shrink_budget=10)
        if v is None and idx % 2 == 0:
            v = common.hyp_drive(reader_strategy(idx // 2), lambda c: check_reader_scenario(c, ev, scratch, tier), seed * 1000 + 750 + idx, max(1, count // 2), ev, shrink_budget=6)
    finally:
        scratch.clean()
    return ev, v


def run(tier, seed, scale=1.0):
    count = int((2 if tier == "quick" else 8) * scale)
    return common.run_shards(shard, 16, tier=tier, seed=seed, count=count)


def replay(case):
    if "reader" in case:
        check_reader_scenario(case)
    else:
        check_scenario(case)
