"""C19 - the DBFS store honours its commit type and keeps legacy blobs readable.

Generated: commit type (documented names in any case, enum names/values, default) x operation sequences
(keep, re-keep with changed code, load, reopen in a fresh process) x value types x legacy codec references
injected by rewriting the metadata of blobs written with the current codecs; run against the in-process fake
of dbutils.  Oracle: files present / absent under the data directory per commit type, byte identity of the
copy, redirect record content, keep values, load works iff the record exists, legacy decode equality.
"""
import json
import os

from .. import common
from ..common import Ev, Violation
from ..harness import proc
from ..jsonval import enc, dec

ID = "C19"
LEVEL = "exploration"
RULE = (
    "Hypothesis-generated cases: commit_type spelling drawn from {None, 'full', 'links_only', 'none' in lower/upper/mixed "
    "case, 'FULL', 'LINK_ONLY', 'NO_COMMIT', 'link_only', 'no_commit'}, value in {str, bytes, None, picklable}, operation list "
    "over {keep, change code + keep (fresh process, or the same process and store object, also changing back to an earlier version), load, reopen in a fresh process, rewrite the blob metadata to the legacy reference of the "
    "same kind (dbfs.string / dbfs.bytes / dbfs.pickle; also reduced to the codec reference alone), blob metadata torn to nothing before a keep, a second live process that analyses the code before the result exists and reads it afterwards, second path kept with the same function}. After every step the tree "
    "under the fake DBFS root is compared with the commit type: 'full' = byte-identical copy at <data>/<path> + redirect record "
    "<data>/_dds_meta/<path> naming the key; 'links only' = record only; 'none' = nothing under <data>; keep always returns the "
    "right value; load returns it iff the record exists. Also the local store's legacy reference default.pandas_local. "
    "Non-trivial = the sequence contains a re-keep with changed code or a legacy rewrite followed by a read; distinct by case."
)
ASSUMPTIONS = ["DBFS semantics are those of vf/harness/fakedbutils.py (documented dbutils.fs behaviour)"]

SPELLINGS = {
    "full": [None, "full", "FULL", "Full"],
    "links_only": ["links_only", "LINKS_ONLY", "Links_Only", "LINK_ONLY", "link_only"],
    "none": ["none", "NONE", "None", "NO_COMMIT", "no_commit"],
}

MODULE_SRC = """import dds
import vlog
from xt import holder as xh

VER = {ver}


@dds.data_function('/out/v')
def f():
    vlog.rec('f')
    return (xh.VALUES[VER])


@dds.data_function('/out/deep/w')
def g():
    vlog.rec('g')
    return (xh.VALUES[VER])


def both():
    return (f(), g())


def base():
    vlog.rec('base')
    return (xh.VALUES[VER])


def same_twice():
    # the same function (same signature) kept under an already recorded path and then under a new one
    return (dds.keep('/out/v2', base), dds.keep('/out/v2copy', base))


def same_once():
    return dds.keep('/out/v2', base)
"""


def case_strategy():
    from hypothesis import strategies as st

    val = st.one_of(
        st.text(max_size=12).map(lambda s: {"k": "str", "v": s}),
        st.sampled_from(["", "é\r\n", "x" * 70000]).map(lambda s: {"k": "str", "v": s}),
        st.binary(max_size=12).map(lambda b: {"k": "bytes", "v": enc(b)}),
        st.just({"k": "pickle", "v": None}),
        st.tuples(st.integers(-3, 3), st.text(max_size=3)).map(lambda t: {"k": "pickle", "v": enc(t)}),
    )
    op = st.sampled_from(["keep", "rekeep", "load", "reopen", "legacy", "keep_both", "keep", "new_view", "faulty_keep", "same_once", "same_twice",
                          "rekeep_live", "revert_live", "rekeep_live", "revert_live", "legacy_min", "probe_other", "torn_meta", "switch_commit",
                          "faulty_record1", "faulty_record2", "faulty_record3"])

    @st.composite
    def gen(draw):
        ct = draw(st.sampled_from(["full", "links_only", "none"]))
        kind = draw(st.sampled_from(["str", "bytes", "pickle"]))
        vals = [draw(val.filter(lambda v: v["k"] == kind)) for _ in range(3)]
        # distinct values so that a stale copy is visible
        empty_first = draw(st.integers(0, 3)) == 0   # the first version may be the empty string / empty bytes
        for i, v in enumerate(vals):
            if v["k"] == "str":
                v["v"] = "" if (i == 0 and empty_first) else v["v"] + str(i)
            elif v["k"] == "bytes":
                v["v"] = enc(b"" if (i == 0 and empty_first) else dec(v["v"]) + bytes([i]))
            else:
                v["v"] = enc((i, dec(v["v"])))
        return {"commit": ct, "spelling": draw(st.sampled_from(SPELLINGS[ct])), "values": vals,
                "ops": ["keep"] + draw(st.lists(op, min_size=1, max_size=6))}

    return gen()


def val_of(spec):
    v = spec["v"]
    if spec["k"] == "str":
        return v
    return dec(v)


# ---------------------------------------------------------------- worker side

def _fail_next_cp(sub):
    from ..harness import worker

    worker.STATE["dbutils"].fs.fail_next = ("cp", sub)
    return True


def _fail_puts(sub, n):
    from ..harness import worker

    worker.STATE["dbutils"].fs.fail_puts = [sub, n] if n else None
    return True


def _open(case, store_dir, values, data="dbfs:/data"):
    import dds
    import importlib
    from ..harness import worker

    try:
        worker.cmd_set_store(kind="dbfs", dir=store_dir, commit_type=case["spelling"], data=data)
    except BaseException as e:
        return f"{type(e).__name__}: {e}"[:300]
    holder = importlib.import_module("xt.holder")
    holder.VALUES = values
    return None


# ---------------------------------------------------------------- driver side

def write_sources(root, ver, mt):
    files = {"pk/__init__.py": "", "pk/m0.py": MODULE_SRC.format(ver=ver), "xt/__init__.py": "", "xt/holder.py": "VALUES = []\n"}
    for rel, content in files.items():
        p = os.path.join(root, rel)
        os.makedirs(os.path.dirname(p), exist_ok=True)
        with open(p, "w") as f:
            f.write(content)
        os.utime(p, (mt, mt))


def tree(d):
    out = {}
    if not os.path.isdir(d):
        return out
    for dp, dn, fn in os.walk(d):
        for n in fn:
            p = os.path.join(dp, n)
            with open(p, "rb") as f:
                out[os.path.relpath(p, d)] = f.read()
    return out


def check_case(case, ev=None, scratch=None):
    own = scratch is None
    scratch = scratch or common.Scratch("vf-c19")
    w = None
    try:
        root = scratch.sub()
        store_dir = scratch.sub()
        values = [val_of(v) for v in case["values"]]
        ver = 0
        mt = [1600000000]
        write_sources(root, ver, mt[0])
        what = f"commit_type={case['spelling']!r} values={case['values'][0]['k']} ops={case['ops']}"

        def start():
            nonlocal w
            if w is not None:
                w.close()
            w = proc.Worker()
            w.call("init", root=root, accepted=["pk"], store=None)
            err = w.call("call", module="vf.props.c19", func="_open", args=[dict(case, spelling=cur["spelling"]), store_dir, values, "dbfs:/" + view[0]])
            if err:
                raise Violation(f"{what}: set_store('dbfs', commit_type={cur['spelling']!r}) failed: {err}", case)

        view = ["data"]
        cur = {"commit": case["commit"], "spelling": case["spelling"]}
        start()
        committed = {}     # path -> (key, value) per the model (what the last keep of the path returned)
        dbroot = os.path.join(store_dir, "dbfsroot")
        stats = {"rekeep": 0, "legacy_read": 0, "legacy": False}
        prev_ver = []

        def check_tree(when):
            data = tree(os.path.join(dbroot, view[0]))
            blobs = tree(os.path.join(dbroot, "internal", "blobs"))
            ct = cur["commit"]
            if ct == "none":
                if data:
                    raise Violation(f"{what}: {when}: commit type 'none' wrote under the data directory: {sorted(data)}", case)
                return
            for path, (key, val) in committed.items():
                rel = path.lstrip("/")
                rec = data.get(os.path.join("_dds_meta", rel))
                if rec is None:
                    raise Violation(f"{what}: {when}: no redirect record for {path} under the data directory (found {sorted(data)})", case)
                try:
                    rk = json.loads(rec.decode())["redirection_key"]
                except Exception as e:
                    raise Violation(f"{what}: {when}: redirect record of {path} is not readable: {rec[:80]!r}", case)
                if rk != key:
                    raise Violation(f"{what}: {when}: redirect record of {path} names {rk[:8]}, the last keep produced {key[:8]}", case)
                copy = data.get(rel)
                if ct == "full":
                    if copy is None:
                        raise Violation(f"{what}: {when}: commit type 'full' left no copy of {path} under the data directory", case)
                    if copy != blobs.get(key):
                        raise Violation(f"{what}: {when}: the copy of {path} under the data directory is not byte-identical to its blob", case)
                else:
                    if copy is not None:
                        raise Violation(f"{what}: {when}: commit type 'links only' copied the data of {path} under the data directory", case)
            extra = [p for p in data if not p.startswith("_dds_meta") and "/" + p not in committed]
            if extra:
                raise Violation(f"{what}: {when}: unexpected files under the data directory: {extra}", case)

        def do_keep(func, paths, when):
            r = w.call("eval", module="pk.m0", func=func, style="direct" if func in ("f", "g") else "eval")
            if r["exc"] is not None:
                raise Violation(f"{what}: {when}: keep raised {r['exc']['type']}: {r['exc']['msg'][:300]}", case)
            want = values[ver] if func not in ("both", "same_twice") else (values[ver], values[ver])
            if not same(r["value"], want):
                raise Violation(f"{what}: {when}: keep returned {short(r['value'])}, expected {short(want)}", case)
            for p in paths:
                committed[p] = (r["sigs"][p], values[ver])
            check_tree(when)

        def do_load(when):
            for path, (key, val) in sorted(committed.items()):
                r = w.call("load", path=path)
                if cur["commit"] == "none":
                    if r["exc"] is None and not same(r["value"], val):
                        raise Violation(f"{what}: {when}: load({path}) returned {short(r['value'])} although nothing is committed", case)
                    continue
                if r["exc"] is not None:
                    raise Violation(f"{what}: {when}: load({path}) raised {r['exc']['type']}: {r['exc']['msg'][:300]} although its record exists", case)
                if not same(r["value"], val):
                    raise Violation(f"{what}: {when}: load({path}) returned {short(r['value'])}, the last keep returned {short(val)}", case)

        for si, op in enumerate(case["ops"]):
            when = f"step {si} {op}"
            if op == "keep":
                do_keep("f", ["/out/v"], when)
            elif op == "keep_both":
                do_keep("both", ["/out/v", "/out/deep/w"], when)
            elif op == "same_once":
                do_keep("same_once", ["/out/v2"], when)
            elif op == "same_twice":
                do_keep("same_twice", ["/out/v2", "/out/v2copy"], when)
            elif op == "rekeep":
                ver = (ver + 1) % 3
                mt[0] += 10
                write_sources(root, ver, mt[0])
                start()
                do_keep("f", ["/out/v"], when)
                stats["rekeep"] += 1
            elif op in ("rekeep_live", "revert_live"):
                # the code changes (or changes back) and is kept again by the same process, on the same store object
                prev_ver.append(ver)
                ver = (ver + 1) % 3 if op == "rekeep_live" or len(prev_ver) < 2 else prev_ver[-2]
                mt[0] += 10
                w.call("write_files", files={"pk/m0.py": MODULE_SRC.format(ver=ver)}, reload=False, mtime=mt[0])
                w.call("call", module="vf.harness.session", func="_reload_present", args=[["pk", "pk.m0"]])
                do_keep("f", ["/out/v"], when)
                do_load(when)
                stats["rekeep"] += 1
                stats["live"] = stats.get("live", 0) + 1
            elif op == "probe_other":
                # a second live process on the same directories analyses the new code (probing blobs that do not exist yet)
                # before the first one keeps it, and reads the result afterwards
                ver = (ver + 1) % 3
                mt[0] += 10
                write_sources(root, ver, mt[0])
                w2 = proc.Worker()
                try:
                    w2.call("init", root=root, accepted=["pk"], store=None)
                    err = w2.call("call", module="vf.props.c19", func="_open", args=[dict(case, spelling=cur["spelling"]), store_dir, values, "dbfs:/" + view[0]])
                    if err:
                        raise Violation(f"{what}: {when}: second process: set_store failed: {err}", case)
                    r = w2.call("eval", module="pk.m0", func="f", style="eval", opts={"dds_stages": ["analysis"], "dds_extra_debug": True})
                    if r["exc"] is not None:
                        raise Violation(f"{what}: {when}: analysis-only run in the second process raised {r['exc']['type']}: {r['exc']['msg'][:200]}", case)
                    if "/out/v" in committed and cur["commit"] != "none":
                        # ... and reads what the path serves before the first process keeps the new version
                        r = w2.call("load", path="/out/v")
                        if r["exc"] is not None or not same(r["value"], committed["/out/v"][1]):
                            raise Violation(f"{what}: {when}: the second process loads {r['exc']['type'] if r['exc'] else short(r['value'])} before the re-keep, "
                                            f"the path serves {short(committed['/out/v'][1])}", case)
                    start()
                    do_keep("f", ["/out/v"], when)
                    stats["rekeep"] += 1
                    if cur["commit"] != "none":
                        r = w2.call("load", path="/out/v")
                        if r["exc"] is not None or not same(r["value"], values[ver]):
                            raise Violation(f"{what}: {when}: the second process (which had analysed the code before the result existed) loads "
                                            f"{r['exc']['type'] if r['exc'] else short(r['value'])}, the first process kept {short(values[ver])}", case)
                    r = w2.call("eval", module="pk.m0", func="f", style="direct")
                    if r["exc"] is not None or not same(r["value"], values[ver]):
                        raise Violation(f"{what}: {when}: keep in the second process gave {r['exc'] or short(r['value'])}, expected {short(values[ver])}", case)
                finally:
                    w2.close()
            elif op == "switch_commit":
                # the same process configures the store again on the same dbutils object and internal directory with ANOTHER commit
                # type (on a new data directory: nothing is committed there yet)
                order = ["full", "links_only", "none"]
                was = cur["commit"]
                cur["commit"] = order[(order.index(cur["commit"]) + 1 + si % 2) % 3]
                cur["spelling"] = cur["commit"]
                if was != "none":
                    # (after 'none' the data directory is still empty and is kept: same dbutils, same two directories)
                    view[0] = "data%d" % (si + 2)
                committed.clear()
                err = w.call("call", module="vf.props.c19", func="_open", args=[dict(case, spelling=cur["spelling"]), store_dir, values, "dbfs:/" + view[0]])
                if err:
                    raise Violation(f"{what}: {when}: set_store('dbfs', commit_type={cur['spelling']!r}) failed: {err}", case)
                do_keep("f", ["/out/v"], when + f" (commit type now {cur['commit']})")
                do_load(when)
                stats["rekeep"] += 1
            elif op == "torn_meta":
                # the metadata of the blob of /out/v is cut to nothing (a writer died in the middle of it): the next keep repairs the blob
                if "/out/v" not in committed:
                    continue
                mp = os.path.join(dbroot, "internal", "blobs", committed["/out/v"][0] + ".meta")
                if not os.path.exists(mp):
                    continue
                open(mp, "w").close()   # only the blob that the next step keeps again
                start()
                do_keep("f", ["/out/v"], when + " (after the blob metadata was torn)")
                do_load(when)
            elif op == "load":
                do_load(when)
                if stats["legacy"]:
                    stats["legacy_read"] += 1
            elif op == "reopen":
                start()
                do_load(when + " (fresh process)")
                if stats["legacy"]:
                    stats["legacy_read"] += 1
            elif op == "new_view":
                # another data directory on the same internal directory: nothing is committed there yet
                view[0] = "data%d" % (si + 2)
                committed.clear()
                start()
                do_keep("f", ["/out/v"], when)
            elif op == "faulty_keep":
                # the copy into the data directory fails once; the retried keep must repair the commit
                ver = (ver + 1) % 3
                mt[0] += 10
                write_sources(root, ver, mt[0])
                start()
                w.call("call", module="vf.props.c19", func="_fail_next_cp", args=["dbfs:/" + view[0]])
                r = w.call("eval", module="pk.m0", func="f", style="direct")
                if r["exc"] is None and cur["commit"] == "full":
                    raise Violation(f"{what}: {when}: the copy into the data directory failed but keep reported success", case)
                w.call("call", module="vf.props.c19", func="_fail_next_cp", args=["<never>"])
                do_keep("f", ["/out/v"], when + " (retry after a failed copy)")
                stats["rekeep"] += 1
            elif op.startswith("faulty_record"):
                # the writes of the redirect record fail n times in a row while changed code is kept: the keep either fails
                # (nothing is claimed then) or, if it returns, has committed the path like any keep that returns
                ver = (ver + 1) % 3
                mt[0] += 10
                write_sources(root, ver, mt[0])
                start()
                w.call("call", module="vf.props.c19", func="_fail_puts", args=["_dds_meta", int(op[-1])])
                r = w.call("eval", module="pk.m0", func="f", style="direct")
                w.call("call", module="vf.props.c19", func="_fail_puts", args=["_dds_meta", 0])
                if r["exc"] is None:
                    if not same(r["value"], values[ver]):
                        raise Violation(f"{what}: {when}: keep returned {short(r['value'])}, expected {short(values[ver])}", case)
                    committed["/out/v"] = (r["sigs"]["/out/v"], values[ver])
                    check_tree(when + f" (keep returned although {op[-1]} consecutive writes of the redirect record failed)")
                    do_load(when + f" (keep returned although {op[-1]} consecutive writes of the redirect record failed)")
                do_keep("f", ["/out/v"], when + " (retry after failed writes of the redirect record)")
                do_load(when + " (retry after failed writes of the redirect record)")
                stats["rekeep"] += 1
            elif op in ("legacy", "legacy_min"):
                bd = os.path.join(dbroot, "internal", "blobs")
                for n in os.listdir(bd):
                    if n.endswith(".meta"):
                        with open(os.path.join(bd, n)) as f:
                            m = json.load(f)
                        m["protocol"] = m["protocol"].replace("local.", "dbfs.")
                        if op == "legacy_min":
                            m = {"protocol": m["protocol"]}   # metadata that names the codec and nothing else
                        with open(os.path.join(bd, n), "w") as f:
                            json.dump(m, f)
                stats["legacy"] = True
                start()   # a fresh process reads blobs "written by an older version"
                # the keep is served from the store: decodes the legacy blob
                r = w.call("eval", module="pk.m0", func="f", style="direct")
                if r["exc"] is not None:
                    raise Violation(f"{what}: {when}: reading a blob whose metadata names the legacy reference raised {r['exc']['type']}: {r['exc']['msg'][:300]}", case)
                if not same(r["value"], values[ver]):
                    raise Violation(f"{what}: {when}: a blob with the legacy reference decoded to {short(r['value'])}, it was written as {short(values[ver])}", case)
                if "f" in r["log"]:
                    raise Violation(f"{what}: {when}: the function was recomputed instead of reading the legacy blob", case)
                stats["legacy_read"] += 1
                committed["/out/v"] = (r["sigs"]["/out/v"], values[ver])
                check_tree(when)
                do_load(when)
        if ev is not None:
            ev.case(case if case["values"][0]["k"] != "str" or len(case["values"][0]["v"]) < 200 else dict(case, values="<long strings>"),
                    stats["rekeep"] >= 1 or stats["legacy_read"] >= 1,
                    features=["commit:" + case["commit"], "spelling:" + repr(case["spelling"]), "type:" + case["values"][0]["k"]]
                    + (["rekeep"] if stats["rekeep"] else []) + (["rekeep-same-store-object"] if stats.get("live") else []) + (["legacy-read"] if stats["legacy_read"] else []), key=case)
    finally:
        if w is not None:
            w.close()
        if own:
            scratch.clean()


def same(a, b):
    if isinstance(a, bytearray):
        a = bytes(a)
    return type(a) == type(b) and a == b


def short(v):
    r = repr(v)
    return r if len(r) < 100 else r[:97] + "..."


def check_local_legacy(ev, scratch):
    """local store: blobs whose metadata says 'default.pandas_local' (older versions) are read as frames"""
    import pandas as pd
    from dds.store import LocalFileStore

    d = scratch.sub()
    s = LocalFileStore(os.path.join(d, "i"), os.path.join(d, "d"))
    df = pd.DataFrame({"a": [1, 2], "b": ["x", "y"]}, index=pd.Index(["r1", "r2"], name="k"))
    key = "ab" * 32
    s.store_blob(key, df, None)
    mp = os.path.join(d, "i", "blobs", key + ".meta")
    m = json.load(open(mp))
    if m["protocol"] != "local.pandas":
        raise Violation(f"a pandas frame was written with codec {m['protocol']}", {"local_legacy": True})
    m["protocol"] = "default.pandas_local"
    json.dump(m, open(mp, "w"))
    s2 = LocalFileStore(os.path.join(d, "i"), os.path.join(d, "d"))
    try:
        got = s2.fetch_blob(key)
    except BaseException as e:
        raise Violation(f"a blob with the legacy reference default.pandas_local could not be read: {type(e).__name__}: {e}", {"local_legacy": True})
    if not (isinstance(got, pd.DataFrame) and got.equals(df)):
        raise Violation(f"a blob with the legacy reference default.pandas_local decoded to {got!r}", {"local_legacy": True})
    ev.case({"local_legacy": "default.pandas_local"}, True, features=["legacy:default.pandas_local"])


def shard(idx, n, tier, seed, count):
    ev = Ev()
    scratch = common.Scratch("vf-c19")
    try:
        if idx == 0:
            check_local_legacy(ev, scratch)
        v = common.hyp_drive(case_strategy(), lambda c: check_case(c, ev, scratch), seed * 1000 + 1900 + idx, count, ev)
    finally:
        scratch.clean()
    return ev, v


def run(tier, seed, scale=1.0):
    count = int((25 if tier == "quick" else 400) * scale)
    return common.run_shards(shard, 16, tier=tier, seed=seed, count=count)


def replay(case):
    if case.get("local_legacy"):
        with common.Scratch("vf-c19") as s:
            check_local_legacy(Ev(), s)
    else:
        check_case(case)
