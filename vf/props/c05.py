"""C05 - value hashing is total, deterministic and collision-free on supported values.

Generated domain:
  (a) exhaustive enumeration of containers over a boundary alphabet up to depth 2,
  (b) Hypothesis recursive strategy for deeper / larger values,
  (c) the sequence-length guard at max_sequence_size and max_sequence_size+1.
Oracles: totality (signature or coded error only), cross-process determinism (other
PYTHONHASHSEED), injectivity modulo the documented canonical form (bucketing).
"""
import collections
import datetime
import hashlib
import itertools
import json
import math
import os
import pathlib
import subprocess
import sys

from .. import common
from ..common import Ev, Violation
from ..jsonval import enc, dec, DC0, DC1, DC2, Opaque

ID = "C05"
LEVEL = "exploration"
RULE = (
    "values enumerated exhaustively (containers list/tuple/dict/OrderedDict/dataclass of length 0-2 over a "
    "boundary alphabet, nesting depth <=2) plus Hypothesis-generated deeper values plus the length guard; every value "
    "is hashed in-process and in a second interpreter with another PYTHONHASHSEED and time zone, generated values once more after an inner container "
    "was modified in place (must equal the hash of a fresh equal value); all values are bucketed by "
    "signature and two values in one bucket must have the same canonical form (tuple->list, bool->int, path/date->text, "
    "dict->list of [key,value] pairs in insertion order (the code) or sorted by key (the documentation); a dataclass is its own kind). Non-trivial = value contains a boundary int (outside 32 bits or at its "
    "edge), a special float, an empty container or a separator/marker-like string; distinct by encoded value."
)
ASSUMPTIONS = [
    "dict/OrderedDict == list of [key, value] pairs is treated as a documented identification (keep docstring: dictionaries are evaluated as lists); "
    "dataclass instances are only compared with dataclass instances of the same field names (one class per field-name set) and must differ from dicts and lists",
    "values that contain a general Python object may either be refused with TYPE_NOT_SUPPORTED or hashed",
]

_HEX_A = hashlib.sha256(b"a").hexdigest()

ATOMS = [
    None, True, False, 0, 1, -1, 2, 2 ** 31 - 1, 2 ** 31, -(2 ** 31), -(2 ** 31) - 1, 2 ** 32, 2 ** 63, 2 ** 64,
    -(2 ** 64), 10 ** 100,
    0.0, -0.0, 1.0, -1.0, float("nan"), float("inf"), float("-inf"), 5e-324, 1e308,
    "", " ", "|", "0", "1", "a", "b", "a|b", "None", "__none__", "__DDS_NONE__", "True", "False", "0.0", "1.0", "-1", "nan", "[]", _HEX_A,
    pathlib.PurePosixPath("a"), pathlib.PurePosixPath("/"), pathlib.PurePosixPath("/a/b"),
    datetime.date(2020, 1, 2), datetime.datetime(2020, 1, 2, 3, 4, 5), datetime.time(1, 2, 3),
    datetime.timedelta(1, 2, 3), datetime.timezone.utc,
    "datetime.date(2020, 1, 2)", "/a/b",
]
# integers whose two's-complement 64-bit pattern is the IEEE-754 pattern of a float of the alphabet (-0.0, 1.0, -1.0, inf, nan, 5e-324)
ATOMS += [int.from_bytes(__import__("struct").pack("!d", f_), "big", signed=True) for f_ in (-0.0, 1.0, -1.0, float("inf"), float("nan"), 5e-324)]
# a small integer / a float and the string whose UTF-8 bytes are its packed form (struct '!l' / '!d')
PACKED_TWINS = [(0x61626364, "abcd"), (__import__("struct").unpack("!d", b"abcdefgh")[0], "abcdefgh"),
                # (non-ASCII: the number of characters is not the number of bytes)
                (__import__("struct").unpack("!l", "a\u20ac".encode("utf-8"))[0], "a\u20ac"),
                (__import__("struct").unpack("!d", "a\u20acbc\u00e9".encode("utf-8"))[0], "a\u20acbc\u00e9")]
ATOMS += [x for pair in PACKED_TWINS for x in pair]
SMALL = [None, True, 0, 1, 2 ** 31, 0.0, float("nan"), "", "a", "|", "__DDS_NONE__", pathlib.PurePosixPath("a")]
KEYS = ["a", "b", "x", "", "|", 0, 1, None, "1", "0", "None", True, 1.0, "1.0"]   # "x", "a", "b" = the field names of DC1 / DC2


def canon(v):
    """Canonical form: exactly the documented identifications."""
    if v is None:
        return ["none"]
    if isinstance(v, bool):
        return ["int", str(int(v))]
    if isinstance(v, int):
        return ["int", str(v)]
    if isinstance(v, float):
        if math.isnan(v):
            return ["float", "nan"]
        return ["float", v.hex()]
    if isinstance(v, str):
        return ["str", v]
    if isinstance(v, pathlib.PurePosixPath):
        return ["str", str(v)]
    if isinstance(v, (datetime.date, datetime.time, datetime.timedelta, datetime.tzinfo)):
        return ["str", repr(v)]
    if isinstance(v, (list, tuple)):
        return ["list", [canon(x) for x in v]]
    if isinstance(v, dict):
        return ["list", [["list", [canon(k), canon(x)]] for k, x in v.items()]]
    if isinstance(v, Opaque):
        return ["opaque"]
    import dataclasses

    if dataclasses.is_dataclass(v):
        # no identification of a dataclass with a dict / list is documented: a dataclass is its own kind of value
        return ["dataclass", [["list", [canon(f.name), canon(getattr(v, f.name))]] for f in dataclasses.fields(v)]]
    raise TypeError(type(v))


def canon_sorted(v):
    """The other documented reading of plain dictionaries: "evaluated as sorted lists (by their keys)" (dds.keep docstring).
    Same as canon() except that the items of a plain dict are sorted."""
    c = canon(v)

    def walk(x, c_):
        # x: value, c_: its canonical form (parallel walk over containers)
        if isinstance(x, dict) and not isinstance(x, collections.OrderedDict):
            pairs = [["list", [canon_sorted(k), canon_sorted(y)]] for k, y in x.items()]
            return ["list", sorted(pairs, key=lambda p_: json.dumps(p_, sort_keys=True))]
        if isinstance(x, collections.OrderedDict):
            return ["list", [["list", [canon_sorted(k), canon_sorted(y)]] for k, y in x.items()]]
        if isinstance(x, (list, tuple)):
            return ["list", [canon_sorted(y) for y in x]]
        import dataclasses

        if dataclasses.is_dataclass(x) and not isinstance(x, type):
            return ["dataclass", [["list", [canon(f.name), canon_sorted(getattr(x, f.name))]] for f in dataclasses.fields(x)]]
        return c_

    return walk(v, c)


def canon_keys(v):
    """the canonical spellings of a value: two values may share a signature iff they have one in common (insertion-ordered
    dictionaries = what the code does, or sorted dictionaries = what the documentation says)"""
    return {json.dumps(canon(v), sort_keys=True), json.dumps(canon_sorted(v), sort_keys=True)}


def bucket_add(bucket, v, tag):
    """bucket: list of (canonical spellings, tag); returns the tag of a value with the same signature but no common spelling, else None"""
    ks = canon_keys(v)
    for (ks0, _t) in bucket:
        if ks & ks0:
            if not ks <= ks0:
                bucket.append((ks, tag))
            return None
    other = bucket[0][1] if bucket else None
    bucket.append((ks, tag))
    return other


def has_opaque(v):
    if isinstance(v, Opaque):
        return True
    if isinstance(v, (list, tuple)):
        return any(has_opaque(x) for x in v)
    if isinstance(v, dict):
        return any(has_opaque(k) or has_opaque(x) for k, x in v.items())
    import dataclasses

    if dataclasses.is_dataclass(v) and not isinstance(v, type):
        return any(has_opaque(getattr(v, f.name)) for f in dataclasses.fields(v))
    return False


def nontrivial(v):
    def leafs(x):
        if isinstance(x, (list, tuple)):
            if not x:
                yield "empty"
            for y in x:
                yield from leafs(y)
        elif isinstance(x, dict):
            if not x:
                yield "empty"
            for k, y in x.items():
                yield from leafs(k)
                yield from leafs(y)
        elif isinstance(x, (DC0, DC1, DC2)):
            import dataclasses

            fs = dataclasses.fields(x)
            if not fs:
                yield "empty"
            for f in fs:
                yield from leafs(getattr(x, f.name))
        elif isinstance(x, bool):
            return
        elif isinstance(x, int):
            if abs(x) >= 2 ** 31 - 1:
                yield "bigint"
        elif isinstance(x, float):
            if math.isnan(x) or math.isinf(x) or x == 0.0 or x == 5e-324:
                yield "specialfloat"
        elif isinstance(x, str):
            if x in ("", " ", "|", "a|b", "None", "__none__", "__DDS_NONE__", _HEX_A):
                yield "markerstr"

    return sorted(set(leafs(v)))


def depth1(atoms, keys, small):
    out = []
    for n in (0, 1, 2):
        for t in itertools.product(atoms, repeat=n):
            out.append(list(t))
    out.append(())
    for a in atoms:
        out.append((a,))
    for a, b in itertools.product(small, repeat=2):
        out.append((a, b))
    out.append({})
    out.append(collections.OrderedDict())
    for k in keys:
        for a in atoms:
            out.append({k: a})
        for a in small:
            out.append(collections.OrderedDict([(k, a)]))
    for k1, k2 in itertools.permutations(keys[:6], 2):
        for a, b in itertools.product(small[:6], repeat=2):
            out.append({k1: a, k2: b})
    out.append(DC0())
    for a in atoms:
        out.append(DC1(a))
    for a, b in itertools.product(small, repeat=2):
        out.append(DC2(a, b))
    return out


def excluded_atoms():
    """Atoms excluded by construction because of an *open* known finding (counted in evidence)."""
    out = []
    if "digest-string" in common.open_features(ID):
        out.append(_HEX_A)
    if "packed-number-string" in common.open_features(ID):
        out += [s for (_n, s) in PACKED_TWINS]
    return out


def known_collision(a, b):
    """the pair is an instance of the open known finding 'packed-number-string' (a number and the string spelling its packed bytes)"""
    import struct

    if "packed-number-string" not in common.open_features(ID):
        return False
    for x, y in ((a, b), (b, a)):
        if isinstance(y, str) and not isinstance(x, bool):
            try:
                if isinstance(x, int) and -(2 ** 31) <= x < 2 ** 31 and struct.pack("!l", x) == y.encode("utf-8"):
                    return True
                if isinstance(x, float) and struct.pack("!d", x) == y.encode("utf-8"):
                    return True
            except (struct.error, UnicodeError):
                pass
    return False


def enumerate_values(tier):
    ex = excluded_atoms()
    atoms = [a for a in ATOMS if not (isinstance(a, str) and a in ex)]
    small = SMALL if tier == "thorough" else SMALL[:9]
    d1 = depth1(atoms, KEYS, small)
    vals = list(atoms) + d1
    # depth 2 over the reduced alphabet
    base = list(small) + depth1(small, KEYS[:3], small[:5])
    if tier != "thorough":
        base = base[:: 2] if len(base) > 260 else base
    for n in (1, 2):
        for t in itertools.product(base, repeat=n):
            vals.append(list(t))
    for b in base:
        vals.append({"a": b})
        vals.append(DC1(b))
        vals.append((b,))
    return vals


def hash_value(dds_hash, DDSException, codes, v):
    """returns ('sig', s) | ('err', code_name); raises Violation on a totality failure"""
    try:
        s = dds_hash(v)
    except DDSException as e:
        code = getattr(e, "error_code", None)
        if code not in codes:
            raise Violation(
                f"hashing {v!r} ended with an uncoded DDSException ({code}): {e}", {"kind": "total", "value": enc(v)}
            )
        return ("err", code.name)
    except BaseException as e:
        raise Violation(
            f"hashing {v!r} raised low-level {type(e).__name__}: {e}", {"kind": "total", "value": enc(v)},
        )
    if not isinstance(s, str) or not s or any(c not in "0123456789abcdef" for c in s):
        raise Violation(f"hashing {v!r} returned a non-signature {s!r}", {"kind": "total", "value": enc(v)})
    return ("sig", s)


def _dds():
    from dds.fun_args import dds_hash
    from dds.structures import DDSException, DDSErrorCode

    return dds_hash, DDSException, (DDSErrorCode.TYPE_NOT_SUPPORTED, DDSErrorCode.SEQUENCE_TOO_LONG)


def check_supported_result(v, res):
    """Supported values within the length bound must hash (an 'unsupported' error would not be truthful)."""
    if res[0] == "err" and not has_opaque(v):
        raise Violation(
            f"supported value {v!r} was refused with {res[1]}", {"kind": "total", "value": enc(v)}
        )


def other_process_hashes(encoded, hashseed):
    env = dict(os.environ)
    env["PYTHONHASHSEED"] = str(hashseed)
    env["TZ"] = "XTZ+7"   # the other process also lives in another time zone (POSIX spelling: no tz database needed)
    env["PYTHONPATH"] = os.pathsep.join([common.REPO, common.VERIF, os.path.join(common.VERIF, ".deps")])
    p = subprocess.run(
        [sys.executable, "-m", "vf.props.c05", "--child"],
        input=json.dumps(encoded).encode(), stdout=subprocess.PIPE, stderr=subprocess.PIPE, env=env, cwd="/",
    )
    if p.returncode != 0:
        raise common.HarnessError("determinism child failed: " + p.stderr.decode()[-2000:])
    return json.loads(p.stdout.decode())


def _child():
    common.setup_paths()
    common.quiet_logging()
    dds_hash, DDSException, codes = _dds()
    vals = [dec(j) for j in json.loads(sys.stdin.read())]
    out = []
    for v in vals:
        try:
            out.append(list(hash_value(dds_hash, DDSException, codes, v)))
        except Violation as e:
            out.append(["viol", e.msg])
    sys.stdout.write(json.dumps(out))


def shard_enum(idx, n, tier, seed):
    dds_hash, DDSException, codes = _dds()
    ev = Ev()
    vals = enumerate_values(tier)
    mine = range(idx, len(vals), n)
    buckets = {}
    results = {}
    for i in mine:
        v = vals[i]
        res = hash_value(dds_hash, DDSException, codes, v)
        check_supported_result(v, res)
        nt = nontrivial(v)
        ev.case(enc(v), bool(nt), features=nt or ["plain"], key=["e", i])
        results[i] = res
    # determinism in another interpreter with another hash seed (sample to bound the pipe size)
    step = 1 if tier == "thorough" else 3
    sample = [i for i in mine][::step]
    other = other_process_hashes([enc(vals[i]) for i in sample], hashseed=seed + 4242 + idx)
    for i, o in zip(sample, other):
        if o[0] == "viol" or tuple(o) != results[i]:
            raise Violation(
                f"hash of {vals[i]!r} differs between processes: {results[i]} vs {o}",
                {"kind": "determinism", "value": enc(vals[i])},
            )
    ev.extra["determinism_checked"] = len(sample)
    ev.extra["enumerated_total"] = len(vals) if idx == 0 else 0
    if idx == 0:
        for a in excluded_atoms():
            ev.excluded[("digest-string:" if a == _HEX_A else "packed-number-string:") + a[:12]] += 1
    ev.exhaustive = True
    return ev, None


def value_strategy():
    from hypothesis import strategies as st

    ex = excluded_atoms()
    atoms = st.one_of(
        st.sampled_from([a for a in ATOMS if not (isinstance(a, str) and a in ex)]),
        st.integers(),
        st.integers(min_value=-(2 ** 70), max_value=2 ** 70),
        st.floats(allow_nan=True, allow_infinity=True),
        st.text(max_size=6),
        st.text(alphabet="|a_ ", max_size=4),
        st.dates(), st.datetimes(), st.times(), st.timedeltas(),
        st.builds(pathlib.PurePosixPath, st.text(alphabet="ab/.", max_size=5)),
    )
    keys = st.one_of(st.sampled_from(KEYS), st.text(max_size=3), st.integers(-3, 3))

    def ext(children):
        return st.one_of(
            st.lists(children, max_size=4),
            st.lists(children, max_size=3).map(tuple),
            st.dictionaries(keys, children, max_size=3),
            st.dictionaries(keys, children, max_size=3).map(collections.OrderedDict),
            st.builds(DC1, children),
            st.builds(DC2, children, children),
            st.just(DC0()),
        )

    return st.recursive(atoms, ext, max_leaves=12)


def shard_random(idx, n, tier, seed, count):
    dds_hash, DDSException, codes = _dds()
    ev = Ev()
    buckets = {}
    seen = []

    def check(v):
        j = enc(v)
        v = dec(j)  # the replayable form is the case (drops e.g. the `fold` attribute of times)
        res = hash_value(dds_hash, DDSException, codes, v)
        check_supported_result(v, res)
        nt = nontrivial(v)
        ev.case(j, bool(nt), features=["rand:" + f for f in (nt or ["plain"])])
        if res[0] == "sig":
            other = bucket_add(buckets.setdefault(res[1], []), v, j)
            if other is not None and not known_collision(dec(other), v):
                raise Violation(
                    f"collision: {dec(other)!r} and {v!r} share signature {res[1]}",
                    {"kind": "collision", "a": other, "b": j},
                )
            # a value and its re-hash must agree (same process)
            if dds_hash(v) != res[1]:
                raise Violation(f"hash of {v!r} not stable within a process", {"kind": "total", "value": j})
            # the same object hashed again after one of its inner containers was modified in place
            if mutate_inner(v):
                j2 = enc(v)
                try:
                    again, fresh = dds_hash(v), dds_hash(dec(j2))
                except DDSException:
                    again = fresh = None
                if again != fresh:
                    raise Violation(f"after an inner container was modified in place the object hashes to {str(again)[:12]}, an equal fresh value {dec(j2)!r} to {str(fresh)[:12]}",
                                    {"kind": "mutated", "value": j})
                ev.features["rand:modified-in-place"] += 1
            if not ev.shrinking and len(seen) < 400:
                seen.append((j, res))

    v = common.hyp_drive(value_strategy(), check, seed * 1000 + idx, count, ev)
    if v is None and seen:
        other = other_process_hashes([j for j, _ in seen], hashseed=seed + 99 + idx)
        for (j, res), o in zip(seen, other):
            if tuple(o) != res:
                raise Violation(
                    f"hash of {dec(j)!r} differs between processes: {res} vs {o}", {"kind": "determinism", "value": j}
                )
        ev.extra["determinism_checked"] = len(seen)
    return ev, v


def check_length_guard(ev):
    """Sequences of length max and max+1 for every container kind, with the option lowered to 6."""
    import dds
    import dataclasses

    dds_hash, DDSException, codes = _dds()
    old = dds.get_option("hash.max_sequence_size")
    try:
        for m in (0, 1, 6):
            dds.set_option("hash.max_sequence_size", m)
            for kind in ("list", "tuple", "dict", "odict", "nested", "dc"):
                for ln in (m, m + 1):
                    if kind == "list":
                        v = list(range(ln))
                    elif kind == "tuple":
                        v = tuple(range(ln))
                    elif kind == "dict":
                        v = {i: i for i in range(ln)}
                    elif kind == "odict":
                        v = collections.OrderedDict((str(i), i) for i in range(ln))
                    elif kind == "nested":
                        v = [list(range(ln))] if m >= 1 else list(range(ln))
                    else:
                        cls = dataclasses.make_dataclass("G", [(f"f{i}", int, 0) for i in range(ln)])
                        v = cls()
                    res = hash_value(dds_hash, DDSException, codes, v)
                    ev.case({"guard": kind, "max": m, "len": ln}, True, features=["guard"])
                    if ln <= m and res[0] != "sig":
                        raise Violation(
                            f"{kind} of length {ln} refused under max_sequence_size={m}: {res}",
                            {"kind": "guard", "ctype": kind, "max": m, "len": ln},
                        )
                    if ln > m and res != ("err", "SEQUENCE_TOO_LONG"):
                        raise Violation(
                            f"{kind} of length {ln} not refused with SEQUENCE_TOO_LONG under max={m}: {res}",
                            {"kind": "guard", "ctype": kind, "max": m, "len": ln},
                        )
    finally:
        dds.set_option("hash.max_sequence_size", old)
    check_guard_history(ev)


def check_guard_history(ev):
    """The outcome of hashing depends on the value and on the option in force, not on the history of the process: every sequence
    of three option changes (set to 0 / 1 / 6, reset to the default), with sequences of lengths around the bounds hashed after
    each change, is compared with the bound of a plain model and with the signatures obtained before any option was touched."""
    import dds
    import itertools

    dds_hash, DDSException, codes = _dds()
    dds.reset_option("hash.max_sequence_size")
    default = dds.get_option("hash.max_sequence_size")
    lens = (0, 1, 2, 6, 7, 40)
    base = {ln: hash_value(dds_hash, DDSException, codes, list(range(ln))) for ln in lens}
    try:
        for seq in itertools.product([0, 1, 6, "reset"], repeat=3):
            dds.reset_option("hash.max_sequence_size")
            for i, o in enumerate(seq):
                if o == "reset":
                    dds.reset_option("hash.max_sequence_size")
                    bound = default
                else:
                    dds.set_option("hash.max_sequence_size", o)
                    bound = o
                case = {"kind": "guard", "history": list(seq[: i + 1])}
                if dds.get_option("hash.max_sequence_size") != bound:
                    raise Violation(f"after the option changes {list(seq[:i + 1])} get_option('hash.max_sequence_size') = {dds.get_option('hash.max_sequence_size')!r}, expected {bound!r}", case)
                for ln in lens:
                    res = hash_value(dds_hash, DDSException, codes, list(range(ln)))
                    want = base[ln] if ln <= bound else ("err", "SEQUENCE_TOO_LONG")
                    if res != want:
                        raise Violation(f"after the option changes {list(seq[:i + 1])} (bound in force {bound}) a list of length {ln} hashes to {res}, expected {want}: the outcome depends on the history of the process", case)
                ev.case(case, True, features=["guard", "guard-history"])
    finally:
        dds.reset_option("hash.max_sequence_size")


def run(tier, seed, scale=1.0):
    ev = Ev()
    viols = []
    errors = []
    try:
        check_length_guard(ev)
    except Violation as v:
        viols.append(v)
    e1, v1, err1 = common.run_shards(shard_enum, 16, tier=tier, seed=seed)
    ev.merge(e1)
    viols += v1
    errors += err1
    # Re-bucket globally in the parent (cheap: signatures only) to find cross-shard collisions
    if not viols and not errors:
        try:
            _global_buckets(tier)
        except Violation as v:
            viols.append(v)
    count = int((300 if tier == "quick" else 6000) * scale)
    e2, v2, err2 = common.run_shards(shard_random, 16, tier=tier, seed=seed, count=count)
    ev.merge(e2)
    viols += v2
    errors += err2
    if tier == "thorough" and not viols and not errors:
        fuzz_campaign(ev, viols, errors, seed, runs=int(40000 * scale))
    return ev, viols, errors


def mutate_inner(v):
    """modify in place the first list / dict found inside v (not v itself); True if something was modified"""
    def walk(x, top):
        if isinstance(x, list):
            if not top:
                x.append("modified in place")
                return True
            return any(walk(y, False) for y in x)
        if isinstance(x, tuple):
            return any(walk(y, False) for y in x)
        if isinstance(x, dict):
            if not top:
                x["modified in place"] = 1
                return True
            return any(walk(y, False) for y in x.values())
        return False

    return walk(v, True)


def fuzz_campaign(ev, viols, errors, seed, procs=16, runs=40000):
    """Coverage-guided tier: `procs` independent atheris/libFuzzer campaigns (vf/fuzz/c05_fuzz.py), each `runs` executions
    from an empty corpus, seeded from VERIF_SEED.  Skipped (and said so in the evidence) when atheris cannot be imported
    or installed from the offline wheelhouse."""
    import importlib.util
    import shutil
    import tempfile

    deps = os.path.join(common.VERIF, ".deps")
    if deps not in sys.path:
        sys.path.append(deps)
    if importlib.util.find_spec("atheris") is None:
        subprocess.run([sys.executable, "-m", "pip", "install", "-q", "--no-index", "--find-links", "/opt/veriftools/wheels", "--target", deps, "atheris"],
                       stdout=subprocess.DEVNULL, stderr=subprocess.DEVNULL)
        importlib.invalidate_caches()
    if importlib.util.find_spec("atheris") is None:
        ev.extra["atheris"] = "skipped: atheris is not importable and could not be installed from /opt/veriftools/wheels"
        return
    base = tempfile.mkdtemp(prefix="c05fuzz-", dir=os.environ.get("VERIF_TMP") or None)
    env = dict(os.environ)
    env["PYTHONPATH"] = os.pathsep.join([common.VERIF, deps])
    env["PYTHONHASHSEED"] = "0"
    jobs = []
    try:
        for i in range(procs):
            d = os.path.join(base, f"p{i}")
            os.makedirs(os.path.join(d, "corpus"))
            cmd = [sys.executable, "-W", "ignore", "-m", "vf.fuzz.c05_fuzz", os.path.join(d, "stats.json"), f"-runs={runs}", f"-seed={seed * 100 + i + 1}",
                   f"-artifact_prefix={d}/", "-max_len=256", os.path.join(d, "corpus")]
            jobs.append((d, subprocess.Popen(cmd, cwd=common.VERIF, env=env, stdout=subprocess.PIPE, stderr=subprocess.STDOUT)))
        tot = {"campaigns": 0, "execs": 0, "valid_inputs": 0, "distinct_values": 0, "nontrivial": 0, "coverage_edges_max": 0}
        for d, pr in jobs:
            out = pr.communicate()[0].decode("utf-8", "replace")
            st = {}
            try:
                with open(os.path.join(d, "stats.json")) as f:
                    st = json.load(f)
            except (OSError, ValueError):
                pass
            if st.get("violation"):
                with open(st["violation"]["replay"]) as f:
                    body = json.load(f)
                viols.append(Violation("[coverage-guided] " + st["violation"]["msg"], body["case"]))
                continue
            if pr.returncode != 0 or not st:
                errors.append("atheris campaign failed:\n" + out[-1500:])
                continue
            tot["campaigns"] += 1
            tot["execs"] += st["execs"]
            tot["valid_inputs"] += st["valid"]
            tot["distinct_values"] += st["distinct"]
            tot["nontrivial"] += st["nontrivial"]
            for ln in out.splitlines():
                if "DONE" in ln and "cov:" in ln:
                    tot["coverage_edges_max"] = max(tot["coverage_edges_max"], int(ln.split("cov:")[1].split()[0]))
            for k, n in st["features"].items():
                ev.features[k] = ev.features.get(k, 0) + n
            ev.evaluations += st["distinct"]
            ev.nontrivial |= set(st.get("nt_keys", []))
            for j in st["samples"][:1]:
                if len(ev.samples) < 8:
                    ev.samples.append({"coverage_guided": j})
        ev.extra["atheris"] = tot
    finally:
        shutil.rmtree(base, ignore_errors=True)


def _global_buckets(tier):
    dds_hash, DDSException, codes = _dds()
    vals = enumerate_values(tier)
    buckets = {}
    for i, v in enumerate(vals):
        try:
            s = dds_hash(v)
        except BaseException:
            continue
        i0 = bucket_add(buckets.setdefault(s, []), v, i)
        if i0 is not None and not known_collision(vals[i0], v):
            raise Violation(
                f"collision: {vals[i0]!r} and {v!r} share signature {s}",
                {"kind": "collision", "a": enc(vals[i0]), "b": enc(v)},
            )


def replay(case):
    dds_hash, DDSException, codes = _dds()
    k = case["kind"]
    if k in ("total", "determinism"):
        v = dec(case["value"])
        res = hash_value(dds_hash, DDSException, codes, v)
        check_supported_result(v, res)
        if k == "determinism":
            o = other_process_hashes([case["value"]], hashseed=777)[0]
            if tuple(o) != res:
                raise Violation(f"hash of {v!r} differs between processes: {res} vs {o}", case)
    elif k == "collision":
        a, b = dec(case["a"]), dec(case["b"])
        ra = hash_value(dds_hash, DDSException, codes, a)
        rb = hash_value(dds_hash, DDSException, codes, b)
        if ra[0] == "sig" and ra == rb and not (canon_keys(a) & canon_keys(b)):
            raise Violation(f"collision: {a!r} and {b!r} share signature {ra[1]}", case)
    elif k == "mutated":
        v = dec(case["value"])
        before = dds_hash(v)
        mutate_inner(v)
        again, fresh = dds_hash(v), dds_hash(dec(enc(v)))
        if again != fresh:
            raise Violation(f"after an inner container was modified in place the object (first hash {before[:12]}) hashes to {again[:12]}, an equal fresh value to {fresh[:12]}", case)
    elif k == "guard":
        ev = Ev()
        check_length_guard(ev)
    else:
        raise common.HarnessError(f"unknown case kind {k}")


if __name__ == "__main__":
    if "--child" in sys.argv:
        _child()
