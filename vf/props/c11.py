"""C11 - ill-formed evaluations are rejected before anything runs, whatever the order.

Families (each enumerated exhaustively up to its bound, sharded):
  A. sets of <=4 kept paths over segments {a,b,ab} (depth <=3) in every call order and nesting placement:
     a strict segment-prefix pair  <=>  DDSException(OVERLAPPING_PATH);
  B. call cycles of length 1..4 over edge kinds {plain call, keep, higher-order reference, class method},
     entered at every position, in one or two modules  =>  CIRCULAR_CALL; with one edge removed: evaluates;
  C. dds.eval nested at depth 1..4 below plain calls / keeps  =>  EVAL_IN_EVAL; without it: evaluates.
A rejected evaluation must execute no user function and leave the (pre-populated) store untouched.
"""
import itertools
import os

from .. import common
from ..common import Ev, Violation
from ..harness import proc

ID = "C11"
LEVEL = "exploration"
RULE = (
    "Enumerated: (A) path lists over {a,b,ab} with 1-3 segments: 2-path and 3-path sets in every order (strided in the quick tier) and every 97th (quick) / "
    "5th (thorough) 4-path set in its orders - end to end; ALL ordered lists of <= 4 paths are covered at function level "
    "through dds' own overlap utility; also triples over an extended alphabet with characters that sort below '/'; each rendered with the keeps in the root, one nested in a kept "
    "function, one in a helper, one as a data function of another module, one as the operand of a * / ** unpacking in a call, or one as the path of the entry point itself (dds.keep(p, root) / "
    "@dds.data_function(p) on the evaluated function); (B) every cycle of length 1-4 over 4 edge kinds, "
    "entered at every member, in one and in two modules, plus the same shape with one edge cut; (C) dds.eval at depth 1-4 "
    "below plain-call / keep edges, plus the same chain without the eval. Each program is evaluated by real dds (every sixth one after a first evaluation attempt made while its package was not accepted yet; every fourth path-list case after a well-formed evaluation that already stored one of the paths) on a store "
    "pre-populated by a valid evaluation; oracle = expected DDS error code (or normal evaluation for the well-formed twin), "
    "empty execution log, no store_blob / sync_paths traffic and unchanged store directories on rejection. Non-trivial = the "
    "offending items are non-adjacent in call order, nested, or in another module; distinct by program text."
)
ASSUMPTIONS = [
    "a name reference that is really called (xu.call0(f)) counts as a call edge; mere mentions that are never called are not generated",
    "string prefixes that are not segment prefixes (/a vs /ab) must be accepted",
]

SEGS = ["a", "b", "ab"]
SEGS_X = ["a", "ab", "a.b", "a-", "a b"]     # extension: characters that sort below '/' (function level + e2e sample)
EDGE_KINDS = ["plain", "keep", "ho", "method"]

VLOG_IMPORT = "import dds\nimport vlog\nfrom xt import util as xu\n"


def all_paths(segs=None, depth=3):
    out = []
    for n in range(1, depth + 1):
        for t in itertools.product(segs or SEGS, repeat=n):
            out.append("/" + "/".join(t))
    return out


def overlapping(paths):
    segs = [p.strip("/").split("/") for p in paths]
    for i, a in enumerate(segs):
        for j, b in enumerate(segs):
            if i != j and len(a) < len(b) and b[: len(a)] == a:
                return True
    return False


# ------------------------------------------------------------------------------------------ family A

def render_paths(pkg, paths, placement, special):
    """paths: ordered list; special: index of the path that gets the special placement."""
    m0 = [VLOG_IMPORT, ""]
    m1 = None
    m0 += ["def leaf():", "    vlog.rec('leaf')", "    return ('leaf',)", "", ""]
    if placement in ("starstar", "starpos"):
        m0 += ["def leafd():", "    vlog.rec('leafd')", "    return {'k': 1}", "", "",
               "def spread(*a, **kw):", "    vlog.rec('spread')", "    return (a, tuple(sorted(kw)))", "", ""]
    body = []
    entry = placement in ("entrykeep", "entrydata")
    for i, p in enumerate(paths):
        if i == special and entry:
            continue   # this path is the one of the entry point itself: dds.keep(p, root) / @dds.data_function(p) on root
        if i == special and placement == "nested":
            m0 += ["def mid():", "    vlog.rec('mid')", f"    return dds.keep({p!r}, leaf)", "", ""]
            body.append("    r%d = dds.keep('/zz/mid', mid)" % i)
        elif i == special and placement == "starstar":
            body.append(f"    r{i} = spread(**dds.keep({p!r}, leafd))")     # the keep is the operand of a ** unpacking
        elif i == special and placement == "starpos":
            body.append(f"    r{i} = spread(*dds.keep({p!r}, leaf))")       # ... of a * unpacking
        elif i == special and placement == "helper":
            m0 += ["def helper():", "    vlog.rec('helper')", f"    return dds.keep({p!r}, leaf)", "", ""]
            body.append("    r%d = helper()" % i)
        elif i == special and placement == "datafun":
            m1 = [VLOG_IMPORT, "", f"@dds.data_function({p!r})", "def dfun():", "    vlog.rec('dfun')", "    return ('dfun',)", ""]
            m0.insert(1, f"from {pkg}.m1 import dfun")
            body.append("    r%d = dfun()" % i)
        else:
            body.append(f"    r{i} = dds.keep({p!r}, leaf)")
    if placement == "entrydata":
        m0 += [f"@dds.data_function({paths[special]!r})"]
    m0 += ["def root():", "    vlog.rec('root')"] + body + ["    return (%s,)" % ", ".join(f"r{i}" for i in range(len(paths)) if not (entry and i == special)), ""]
    # a well-formed evaluation keeping ONE of the paths exactly like root does (used to warm the store before root is evaluated)
    w = next((i for i in range(len(paths)) if i != special), None)
    if w is not None:
        m0 += ["", "def warm():", "    vlog.rec('warm')", f"    return dds.keep({paths[w]!r}, leaf)", ""]
    files = {f"{pkg}/__init__.py": "", f"{pkg}/m0.py": "\n".join(m0)}
    if m1:
        files[f"{pkg}/m1.py"] = "\n".join(m1)
    return files


STAGE_LISTS = [["analysis"], ["analysis", "store_inspect"], ["analysis", "store_inspect", "eval"], ["ANALYSIS"], ["analysis", "store_inspect", "eval", "store_commit"]]


def family_a(tier):
    paths = all_paths()
    cases = []
    placements = ["root", "nested", "helper", "datafun", "entrykeep", "entrydata", "starstar", "starpos"]
    n = 0
    for k in (2, 3, 4):
        for combo in itertools.combinations(paths, k):
            ov = overlapping(combo)
            # keep every overlapping set; stride the (much more numerous) prefix-free ones
            n += 1
            if k == 4 and n % (97 if tier != "thorough" else 5):
                continue   # 4-path sets are strided end-to-end; ALL of their orders are covered at function level
            if k == 3 and tier != "thorough" and n % 7:
                continue
            if not ov and n % (3 if tier == "thorough" else 11):
                continue
            perms = list(itertools.permutations(combo))
            if k == 4:
                perms = perms[:: (1 if tier == "thorough" else 5)]
            for pi, perm in enumerate(perms):
                placement = placements[(n + pi) % 8]
                c = {"fam": "A", "paths": list(perm), "placement": placement, "special": (n + pi) % k}
                if ov and placement not in ("entrykeep", "entrydata") and (n + pi) % 3 == 0:
                    # the ill-formed evaluation is requested as a dry run: it is rejected all the same
                    c["stages"] = STAGE_LISTS[(n + pi) // 3 % len(STAGE_LISTS)]
                cases.append(c)
    # extended alphabet: every overlapping triple (depth <= 2) in every order, and a stride of the prefix-free ones
    px = all_paths(SEGS_X, 2)
    m = 0
    for combo in itertools.combinations(px, 3):
        ov = overlapping(combo)
        m += 1
        if not ov and m % 40:
            continue
        if ov and tier != "thorough" and m % 3:
            continue
        for pi, perm in enumerate(itertools.permutations(combo)):
            cases.append({"fam": "A", "paths": list(perm), "placement": placements[(m + pi) % 8], "special": (m + pi) % 3})
    return cases


# ------------------------------------------------------------------------------------------ family B

BUILTIN_LIKE = ["next", "iter", "filter", "format"]


def render_cycle(pkg, kinds, entry, cut, two_mods, entry_style="plain", local_import=False, builtin_names=False, attr_var=False, soften_method=None):
    files = _render_cycle(pkg, kinds, entry, cut, two_mods, entry_style, local_import, attr_var, soften_method)
    if builtin_names:
        # the members of the cycle are user functions whose names coincide with builtins
        import re

        for k in list(files):
            for i in range(len(kinds)):
                files[k] = re.sub(r"\bc%d\b" % i, BUILTIN_LIKE[i], files[k])
    return files


def _render_cycle(pkg, kinds, entry, cut, two_mods, entry_style="plain", local_import=False, attr_var=False, soften_method=None):
    """c_i --kinds[i]--> c_{(i+1)%n}; root plainly calls c_entry; if cut is not None that edge is replaced by a leaf call."""
    n = len(kinds)
    top = (lambda: [VLOG_IMPORT, ""]) if local_import else (lambda: [VLOG_IMPORT, f"import {pkg}.m0", f"import {pkg}.m1" if two_mods else "", "", "VX = 1", ""])
    mods = {0: top(), 1: top()}
    limp = [f"    import {pkg}.m0", f"    import {pkg}.m1"] if (local_import and two_mods) else ([f"    import {pkg}.m0"] if local_import else [])
    where = [(i % 2 if two_mods else 0) for i in range(n)]

    def ref(i, here, bare_needed):
        if where[i] == here:
            return f"c{i}"
        if bare_needed:
            return None
        return f"{pkg}.m{where[i]}.c{i}"

    for i, kind in enumerate(kinds):
        j = (i + 1) % n
        here = where[i]
        lines = [f"def c{i}():"] + limp + [f"    vlog.rec('c{i}')"]
        if attr_var and two_mods and not local_import and where[j] != here:
            # the function also reads a variable through the module object through which it calls
            lines.append(f"    _v = {pkg}.m{where[j]}.VX")
        if cut == i:
            lines.append("    r = xu.e0()")
        elif kind == "plain":
            lines.append(f"    r = {ref(j, here, False)}()")
        elif kind == "keep":
            name = ref(j, here, True)
            if name is None:
                mods[here].insert(1, f"from {pkg}.m{where[j]} import c{j} as c{j}_imp" if False else "")
                # cross-module keep needs a bare name: fall back to a plain edge (the shape keeps its length)
                lines.append(f"    r = {ref(j, here, False)}()")
            else:
                lines.append(f"    r = dds.keep('/cyc/k{i}', {name})")
        elif kind == "ho":
            name = ref(j, here, True)
            if name is None:
                lines.append(f"    r = {ref(j, here, False)}()")
            else:
                lines.append(f"    r = xu.call0({name})")
        elif kind == "method":
            # (soften_method: the first version of a class that is redefined later in the same process - its method calls nothing)
            mods[here] += [f"class K{i}(object):", "    def m(self):"] + ["    " + l for l in limp] + [f"        vlog.rec('K{i}.m')",
                           f"        return {'xu.e0' if soften_method == i else ref(j, here, False)}()", "", ""]
            lines.append(f"    r = K{i}().m()")
        lines += [f"    return ('c{i}', r)", "", ""]
        mods[here] += lines
    if entry_style == "keep" and where[entry] == 0:
        mods[0] += ["def root():", "    vlog.rec('root')", f"    return ('root', dds.keep('/cyc/entry', c{entry}))", ""]
    elif entry_style == "direct" and where[entry] == 0:
        mods[0] += [f"root = c{entry}", ""]
    else:
        mods[0] += ["def root():"] + limp + ["    vlog.rec('root')", f"    return ('root', {ref(entry, 0, False)}())", ""]
    files = {f"{pkg}/__init__.py": "", f"{pkg}/m0.py": "\n".join(mods[0])}
    if two_mods:
        files[f"{pkg}/m1.py"] = "\n".join(mods[1])
    return files


def family_b(tier, excluded=None):
    cases = []
    skip_self_ho = "self-ho-cycle" in common.open_features(ID)
    for n in (1, 2, 3, 4):
        for kinds in itertools.product(EDGE_KINDS, repeat=n):
            if skip_self_ho and list(kinds) == ["ho"]:
                if excluded is not None:
                    excluded["self-ho-cycle"] += 1
                continue
            for entry in range(n):
                for two in ([False, True] if n > 1 else [False]):
                    k = len(cases)
                    cases.append({"fam": "B", "kinds": list(kinds), "entry": entry, "cut": None, "two": two,
                                  "entry_style": ["plain", "keep", "direct"][k % 3],
                                  # function-local imports only inside one module (a sub-module that is first imported by a
                                  # function body does not exist yet when dds analyses the code)
                                  "local_import": (k % 5 == 0) and not two, "builtin_names": k % 7 == 3, "attr_var": two and k % 2 == 1})
            # the well-formed twin: one edge cut (entered at the member after the cut)
            cut = (len(cases)) % n
            cases.append({"fam": "B", "kinds": list(kinds), "entry": (cut + 1) % n, "cut": cut, "two": n > 1 and len(cases) % 2 == 0})
    if tier != "thorough":
        cases = [c for i, c in enumerate(cases) if len(c["kinds"]) < 4 or i % 4 == 0]
    return cases


# ------------------------------------------------------------------------------------------ family C

def render_nested_eval(pkg, chain, with_eval, via):
    """root -> h1 -> ... -> h_d ; h_d calls dds.eval(leaf) (or leaf() in the twin); chain[i] in {plain, keep}."""
    lines = [VLOG_IMPORT, "", "def leaf():", "    vlog.rec('leaf')", "    return ('leaf',)", "", ""]
    d = len(chain)
    inner = "dds.eval(leaf)" if with_eval else "leaf()"
    if via == "alias" and with_eval:
        lines.insert(1, "from dds import eval as dds_eval")
        inner = "dds_eval(leaf)"
    if via == "shadow" and with_eval:
        lines.insert(1, "from dds import eval")   # the module-level name shadows the builtin of the same name
        inner = "eval(leaf)"
    loc = ["    import dds"] if via == "local_import" else []
    lines += [f"def h{d}():"] + loc + [f"    vlog.rec('h{d}')", f"    return ('h{d}', {inner})", "", ""]
    for i in range(d - 1, 0, -1):
        call = f"h{i + 1}()" if chain[i] == "plain" else f"dds.keep('/ne/k{i}', h{i + 1})"
        lines += [f"def h{i}():", f"    vlog.rec('h{i}')", f"    return ('h{i}', {call})", "", ""]
    call = "h1()" if chain[0] == "plain" else "dds.keep('/ne/k0', h1)"
    if via in ("same_name", "static_method"):
        # same_name: the chain lives in a second module; the root's module defines harmless functions with the SAME names and
        #            calls its own h1 first, then enters the other module
        # static_method: the innermost call sits in a static method of an accepted class
        if via == "static_method":
            i = lines.index(f"def h{d}():")
            lines[i + 2] = f"    return ('h{d}', Holder.run())"
            lines[i:i] = ["class Holder(object):", "    @staticmethod", "    def run():", "        vlog.rec('Holder.run')", f"        return {inner}", "", ""]
            lines += ["def root():", "    vlog.rec('root')", f"    return ('root', {call})", ""]
            return {f"{pkg}/__init__.py": "", f"{pkg}/m0.py": "\n".join(lines)}
        m1 = lines + ["def entry():", "    vlog.rec('entry')", f"    return ('entry', {call})", ""]
        m0 = [VLOG_IMPORT, f"from {pkg} import m1", ""]
        for i in range(1, d + 1):
            m0 += [f"def h{i}():", f"    vlog.rec('m0.h{i}')", f"    return ('m0.h{i}',)", "", ""]
        m0 += ["def root():", "    vlog.rec('root')", "    first = h1()", "    return ('root', first, m1.entry())", ""]
        return {f"{pkg}/__init__.py": "", f"{pkg}/m0.py": "\n".join(m0), f"{pkg}/m1.py": "\n".join(m1)}
    lines += ["def root():", "    vlog.rec('root')", f"    return ('root', {call})", ""]
    return {f"{pkg}/__init__.py": "", f"{pkg}/m0.py": "\n".join(lines)}


def family_c(tier):
    cases = []
    for d in (1, 2, 3, 4):
        for chain in itertools.product(["plain", "keep"], repeat=d):
            for with_eval in (True, False):
                for via in (["attr", "alias", "local_import", "shadow", "same_name", "static_method"] if with_eval else ["attr", "local_import", "same_name", "static_method"]):
                    cases.append({"fam": "C", "chain": list(chain), "with_eval": with_eval, "via": via})
    return cases


# ------------------------------------------------------------------------------------------ execution

POPULATE = {"pop/__init__.py": "", "pop/m0.py": VLOG_IMPORT + "\n\n@dds.data_function('/pop/a')\ndef pa():\n    return 'old-a'\n\n\n"
            "@dds.data_function('/pop/ab/b')\ndef pb():\n    return 'old-b'\n\n\ndef both():\n    return (pa(), pb())\n"}
XT = {"xt/__init__.py": "", "xt/util.py": "def e0():\n    return ('e0',)\n\n\ndef call0(f):\n    return f()\n"}


def snapshot(d):
    out = {}
    for dp, dn, fn in os.walk(d):
        for n in fn + dn:
            p = os.path.join(dp, n)
            if os.path.islink(p):
                out[p] = ("link", os.readlink(p))
            elif os.path.isfile(p):
                with open(p, "rb") as f:
                    out[p] = ("file", f.read())
            else:
                out[p] = ("dir",)
    return out


def expected_of(case):
    if case["fam"] == "A":
        return "OVERLAPPING_PATH" if overlapping(case["paths"]) else None
    if case["fam"] == "B":
        return None if case["cut"] is not None else "CIRCULAR_CALL"
    return "EVAL_IN_EVAL" if case["with_eval"] else None


def render_case(case, pkg):
    if case["fam"] == "A":
        return render_paths(pkg, case["paths"], case["placement"], case["special"])
    if case["fam"] == "B":
        return render_cycle(pkg, case["kinds"], case["entry"], case["cut"], case["two"],
                            case.get("entry_style", "plain"), case.get("local_import", False), case.get("builtin_names", False), case.get("attr_var", False),
                            case.get("soften_method"))
    return render_nested_eval(pkg, case["chain"], case["with_eval"], case["via"])


def nontrivial(case):
    if case["fam"] == "A":
        if not overlapping(case["paths"]):
            return False
        segs = [p.strip("/").split("/") for p in case["paths"]]
        adjacent = any(
            abs(i - j) == 1 and len(a) < len(b) and b[: len(a)] == a
            for i, a in enumerate(segs) for j, b in enumerate(segs) if i != j
        )
        return (not adjacent) or case["placement"] != "root"
    if case["fam"] == "B":
        return case["cut"] is None and (len(case["kinds"]) > 1 or case["kinds"][0] != "plain")
    return case["with_eval"] and len(case["chain"]) > 1


class Runner(object):
    """One worker process that evaluates many cases (unique package per case) on one pre-populated local store."""

    def __init__(self, scratch, store_kind="local"):
        self.scratch = scratch
        self.root = scratch.sub()
        self.store_dir = scratch.sub()
        self.store_kind = store_kind
        self.n = 0
        self.w = None
        self.start()

    def start(self):
        if self.w:
            self.w.close()
        write_files(self.root, POPULATE)
        write_files(self.root, XT)
        self.w = proc.Worker()
        self.w.call("init", root=self.root, accepted=["pop"], store=None)
        self.count = 0

    def fresh_store(self):
        """every case gets its own store (paths of different cases must not meet), pre-populated by a valid evaluation"""
        import shutil

        kind = "local" if self.n % 4 == 0 else "memory"
        shutil.rmtree(self.store_dir, ignore_errors=True)
        os.makedirs(self.store_dir)
        self.w.call("set_store", kind=kind, dir=self.store_dir)
        r = self.w.call("eval", module="pop.m0", func="both", style="eval")
        if r["exc"] is not None:
            raise common.HarnessError("populate failed: " + str(r["exc"]))

    def run(self, case):
        if self.count >= 40:
            self.start()
        self.count += 1
        self.n += 1
        self.fresh_store()
        pkg = f"cy{os.getpid()}_{self.n}"
        if case.get("redefine"):
            # the same package first holds the well-formed twin (one edge cut), is evaluated, and is then rewritten and reloaded in
            # the running process with the ill-formed code
            cut_case = dict(case, soften_method=case["kinds"].index("method"), redefine=None)
            files0 = render_case(cut_case, pkg)
            write_files(self.root, files0)
            self.w.call("call", module="dds", func="accept_module", args=[pkg])
            r0 = self.w.call("eval", module=f"{pkg}.m0", func="root", style="eval")
            if r0["exc"] is not None:
                raise common.HarnessError("the well-formed first version was rejected: " + str(r0["exc"])[:300])
            files1 = render_case(case, pkg)
            write_files(self.root, files1)
            for k_, rel in enumerate(sorted(files1)):
                os.utime(os.path.join(self.root, rel), (1700000000 + self.n * 100 + k_, 1700000000 + self.n * 100 + k_))
            self.w.call("call", module="vf.harness.session", func="_reload_present", args=[[pkg, f"{pkg}.m1", f"{pkg}.m0"]])
            self.fresh_store()
        else:
            write_files(self.root, render_case(case, pkg))
        if case.get("late_accept"):
            # the package is first met while it is not accepted (whatever dds answers), and accepted afterwards
            self.w.call("eval", module=f"{pkg}.m0", func="root", style="eval")
        self.w.call("call", module="dds", func="accept_module", args=[pkg])
        if case.get("warm"):
            # one of the paths is already in the store, produced by an earlier well-formed evaluation of the same code
            r0 = self.w.call("eval", module=f"{pkg}.m0", func="warm", style="eval")
            if r0["exc"] is not None:
                raise common.HarnessError("warm-up evaluation failed: " + str(r0["exc"]))
        before = snapshot(self.store_dir)
        if case["fam"] == "A" and case["placement"] == "entrykeep":
            res = self.w.call("eval", module=f"{pkg}.m0", func="root", style="keep", path=case["paths"][case["special"]])
        elif case["fam"] == "A" and case["placement"] == "entrydata":
            res = self.w.call("eval", module=f"{pkg}.m0", func="root", style="direct")
        elif case.get("stages"):
            res = self.w.call("eval", module=f"{pkg}.m0", func="root", style="eval", opts={"dds_stages": case["stages"]})
        else:
            res = self.w.call("eval", module=f"{pkg}.m0", func="root", style="eval")
        after = snapshot(self.store_dir)
        return res, before == after

    def close(self):
        if self.w:
            self.w.close()


def write_files(root, files):
    for rel, content in files.items():
        p = os.path.join(root, rel)
        os.makedirs(os.path.dirname(p), exist_ok=True)
        with open(p, "w") as f:
            f.write(content)


def judge(case, res, unchanged):
    exp = expected_of(case)
    what = {k: v for k, v in case.items()}
    if exp is None:
        if res["exc"] is not None:
            raise Violation(f"well-formed program {what} was rejected: {res['exc']['type']} {res['exc']['code']}: {res['exc']['msg'][:200]}", case)
        if not res["log"]:
            raise Violation(f"well-formed program {what} did not run (log={res['log']})", case)
        return
    if res["exc"] is None:
        raise Violation(f"ill-formed program {what} was evaluated (expected {exp}); returned {res['value']!r}, executed {res['log']}", case)
    if not res["exc"]["is_dds"] or res["exc"]["code"] != exp:
        raise Violation(f"ill-formed program {what}: expected DDS error {exp}, got {res['exc']['type']} code={res['exc']['code']}: {res['exc']['msg'][:200]}", case)
    if res["log"]:
        raise Violation(f"ill-formed program {what} was rejected with {exp} only after user functions ran: {res['log']}", case)
    if res.get("stored") or res.get("synced") or not unchanged:
        raise Violation(f"ill-formed program {what} was rejected with {exp} but the store changed (stored={len(res.get('stored', []))}, synced={len(res.get('synced', []))}, dirs unchanged={unchanged})", case)
    if not res["ctx_clean"]:
        raise Violation(f"after rejecting {what} dds is still inside an evaluation", case)


def shard(idx, n, tier, seed):
    ev = Ev()
    cases = family_a(tier) + family_b(tier, ev.excluded if idx == 0 else None) + family_c(tier)
    # rotate by seed so that different seeds put different cases first (the set is the same)
    mine = [dict(c, late_accept=True) if (i // n) % 6 == 3 else c for i, c in enumerate(cases) if (i + seed) % n == idx]
    mine = [dict(c, redefine=1 + (k % len(c["kinds"]))) if (c["fam"] == "B" and c.get("cut") is None and "method" in c["kinds"] and c.get("entry_style", "plain") == "plain"
                                                          and not c.get("late_accept") and not c.get("local_import") and k % 3 == 0) else c for k, c in enumerate(mine)]
    mine = [dict(c, warm=True) if (c["fam"] == "A" and len(c["paths"]) > 1 and k % 4 == 1 and not c.get("late_accept")) else c for k, c in enumerate(mine)]
    scratch = common.Scratch("vf-c11")
    runner = Runner(scratch)
    try:
        for case in mine:
            res, unchanged = runner.run(case)
            judge(case, res, unchanged)
            ev.case(case, nontrivial(case), features=["family:" + case["fam"], "expect:" + str(expected_of(case))]
                    + ([f"placement:{case['placement']}"] if case["fam"] == "A" else []) + (["accepted-after-a-first-evaluation"] if case.get("late_accept") else []) + (["one-path-already-stored"] if case.get("warm") else []) + (["redefined-in-process"] if case.get("redefine") else []))
    finally:
        runner.close()
        scratch.clean()
    ev.exhaustive = False   # the end-to-end families are strided; the function-level enumeration (parent) is complete
    return ev, None


def check_function_level(ev, tier):
    """Exhaustive over ALL ordered lists of <=4 paths: the overlap predicate used by the evaluation
    (reached through dds' own utility so that every order is covered cheaply)."""
    from dds.structures_utils import FunctionInteractionsUtils as F

    paths = all_paths()
    n = 0
    for k in (1, 2, 3, 4):
        for combo in itertools.combinations(paths, k):
            ov = overlapping(combo)
            perms = itertools.permutations(combo) if (k < 4 or tier == "thorough") else list(itertools.permutations(combo))[::3]
            for perm in perms:
                n += 1
                got = bool(F.non_terminal_leaves(list(perm), None))
                if got != ov:
                    raise Violation(f"overlap detection answers {got} for the path list {list(perm)} (expected {ov})",
                                    {"fam": "A", "paths": list(perm), "placement": "root", "special": 0})
    px = all_paths(SEGS_X, 2) + all_paths(["a", "a.b", "a-"], 3)
    px = sorted(set(px))
    for k in (2, 3):
        for ci, combo in enumerate(itertools.combinations(px, k)):
            if k == 3 and tier != "thorough" and ci % 5:
                continue
            ov = overlapping(combo)
            for perm in itertools.permutations(combo):
                n += 1
                got = bool(F.non_terminal_leaves(list(perm), None))
                if got != ov:
                    raise Violation(f"overlap detection answers {got} for the path list {list(perm)} (expected {ov})",
                                    {"fam": "A", "paths": list(perm), "placement": "root", "special": 0})
    ev.extra["path_lists_checked_at_function_level"] = n
    ev.extra["function_level_enumeration_complete_for_alphabet_a_b_ab"] = (tier == "thorough")


def run(tier, seed, scale=1.0):
    ev = Ev()
    viols = []
    try:
        check_function_level(ev, tier)
    except Violation as v:
        viols.append(v)
    e2, v2, err2 = common.run_shards(shard, 16, tier=tier, seed=seed)
    ev.merge(e2)
    return ev, viols + v2, err2


def replay(case):
    with common.Scratch("vf-c11") as scratch:
        runner = Runner(scratch)
        try:
            res, unchanged = runner.run(case)
            judge(case, res, unchanged)
        finally:
            runner.close()
