"""C08 - stores round-trip blobs and paths; distinct paths never alias or escape.

Generated: operation sequences (store/has/fetch blob, sync/fetch paths, reopen) x path pool over a
concatenation-ambiguous segment alphabet x store kind {memory, local, lru(local), dbfs(fake)} against a
dictionary model; plus a sub-domain of paths with '.', '..', empty segments and trailing slashes
(acceptable: coded DDSException, or a location inside the data directory that aliases nothing else).
"""
import itertools
import os

from .. import common
from ..common import Ev, Violation
from ..jsonval import enc, dec

ID = "C08"
LEVEL = "exploration"
RULE = (
    "Hypothesis-generated cases: store kind, a prefix-free pool of 2-6 paths (1-4 segments over {a,b,ab,'a b','é','a.b','.a','..a','%2F','A'}, plus planted ambiguous groups incl. NFC/NFD spellings of one text; "
    "the generator plants concatenation-ambiguous pairs such as /a/b/c vs /ab/c), 4 keys with fixed values "
    "(str/bytes/None/picklable) and up to 25 operations interpreted against a dict model; every answer is compared with the "
    "model after each step and a full scan is made at the end and after each reopen; for the local store the directories "
    "five levels above the data directory are scanned for any entry created outside it. Dot-path sub-domain: every path of "
    "<=3 segments over {a,b,.,..,''} committed next to its normalised neighbours. Non-trivial = the case commits >=2 paths "
    "whose concatenated segments coincide or that share a directory and reads them back after a reopen (main domain), or "
    "the path contains '.'/'..' (dot domain); distinct by (store, pool, ops)."
)
ASSUMPTIONS = [
    "DBFS is judged against the in-process fake of dbutils.fs (vf/harness/fakedbutils.py)",
    "paths that are segment-prefixes of one another are never committed to the same store (undocumented)",
    "a key always holds the same value (content address); fetch of a never-stored key is not judged",
]

SEGS = ["a", "b", "ab", "a b", "é", "a.b", ".a", "..a", "%2F", "A", "c"]
KEYS = ["1" * 64, "2" * 64, "ab" * 32, "f" * 64]
KINDS = ["memory", "local", "lru-local", "dbfs"]
DEPTH = 5


def segs_of(p):
    return [s for s in p.split("/") if s]


def prefix_related(a, b):
    n = min(len(a), len(b))
    return a[:n] == b[:n]


def path_pool(draw_paths):
    """Keep a prefix-free subset (on non-empty segment lists), construction not rejection."""
    out = []
    for p in draw_paths:
        s = segs_of(p)
        if not s:
            continue
        if any(prefix_related(s, segs_of(q)) for q in out):
            continue
        out.append(p)
    return out


def case_strategy():
    from hypothesis import strategies as st

    seg = st.sampled_from(SEGS)
    path = st.lists(seg, min_size=1, max_size=4).map(lambda l: "/" + "/".join(l))
    ambiguous = st.sampled_from(
        [["/a/b/c", "/ab/c"], ["/a/b", "/ab"], ["/a/b/c", "/a/bc", "/ab/c"], ["/a/b/a/b", "/ab/ab", "/a/b/ab"],
         ["/a/b/c", "/a/b/A", "/a/c"], ["/.a", "/a"], ["/..a/b", "/a/b"], ["/a b/c", "/a/b c", "/ab/c"], ["/.a/b", "/a/b"], ["/.a/..a", "/a/.a"],
         # the same text in composed and in decomposed unicode form: two different paths
         # a dot inside a segment that lines up with a segment boundary of another path
         ["/a/b", "/a.b"], ["/a/b.ab", "/a.b/ab"], ["/a.b/c", "/a/b.c", "/a/b/c"], ["/a/b/c", "/a.b.c"],
         ["/caf\u00e9", "/cafe\u0301"], ["/a/\u00e9/b", "/a/e\u0301/b", "/a/e/b"]]
    )
    val = st.one_of(
        st.text(max_size=8), st.binary(max_size=8), st.none(),
        st.tuples(st.integers(-5, 5), st.text(max_size=3)),
        st.dictionaries(st.text(max_size=2), st.integers(0, 3), max_size=2),
    )
    op = st.one_of(
        st.tuples(st.just("store"), st.integers(0, 3)),
        st.tuples(st.just("store"), st.integers(0, 3)),
        st.tuples(st.just("has"), st.integers(0, 3)),
        st.tuples(st.just("fetch"), st.integers(0, 3)),
        st.tuples(st.just("sync"), st.lists(st.tuples(st.integers(0, 9), st.integers(0, 9)), min_size=1, max_size=3)),
        st.tuples(st.just("sync"), st.lists(st.tuples(st.integers(0, 9), st.integers(0, 9)), min_size=1, max_size=3)),
        st.tuples(st.just("paths"), st.lists(st.integers(0, 9), min_size=1, max_size=3)),
        st.tuples(st.just("reopen")),
        st.tuples(st.just("early"), st.integers(0, 9), st.integers(0, 3)),
    )

    @st.composite
    def gen(draw):
        amb = draw(st.one_of(st.just([]), ambiguous, ambiguous))
        extra = draw(st.lists(path, min_size=1, max_size=4))
        pool = path_pool(list(amb) + extra)
        vals = [enc(draw(val)) for _ in KEYS]
        ops = [_jl(o) for o in draw(st.lists(op, min_size=3, max_size=25))]
        return {"kind": draw(st.sampled_from(KINDS)), "pool": pool, "vals": vals, "ops": ops}

    return gen()


def _jl(o):
    return [list(x) if isinstance(x, tuple) else ([list(y) for y in x] if isinstance(x, list) and x and isinstance(x[0], tuple) else x) for x in o]


class StoreEnv(object):
    def __init__(self, kind, scratch):
        base = scratch.sub()
        d = base
        for i in range(DEPTH):
            d = os.path.join(d, f"l{i}")
        os.makedirs(d)
        self.base = base
        self.dir = d
        self.kind = kind
        self.internal = os.path.join(d, "internal")
        self.data = os.path.join(d, "data")
        self.store = None
        self.mem = None
        self.open()

    def open(self):
        from dds.store import MemoryStore, LocalFileStore

        if self.kind == "memory":
            if self.mem is None:
                self.mem = MemoryStore()
            self.store = self.mem
        elif self.kind == "local":
            self.store = LocalFileStore(self.internal, self.data)
        elif self.kind == "lru-local":
            from dds._lru_store import LRUCacheStore

            self.store = LRUCacheStore(LocalFileStore(self.internal, self.data), 2)
        elif self.kind == "dbfs":
            from dds.codecs.databricks import DBFSStore, DBFSURI, CommitType
            from ..harness.fakedbutils import FakeDbutils

            root = os.path.join(self.dir, "dbfsroot")
            self.dbutils = FakeDbutils(root)
            self.store = DBFSStore(DBFSURI.parse("dbfs:/internal"), DBFSURI.parse("dbfs:/data"), self.dbutils, CommitType.FULL)
        else:
            raise common.HarnessError(self.kind)

    def escaped_entries(self):
        """Entries created outside the store directories (local kinds)."""
        bad = []
        d = self.base
        for i in range(DEPTH):
            want = {f"l{i}"}
            got = set(os.listdir(d))
            bad += [os.path.join(d, x) for x in got - want]
            d = os.path.join(d, f"l{i}")
        allowed = {"internal", "data", "dbfsroot"}
        bad += [os.path.join(d, x) for x in set(os.listdir(d)) - allowed]
        if os.path.isdir(self.internal):
            bad += [os.path.join(self.internal, x) for x in set(os.listdir(self.internal)) - {"blobs"}]
        return bad


def mkpath(p):
    from dds.structures_utils import DDSPathUtils

    return DDSPathUtils.create(p)


def check_case(case, ev=None, scratch=None):
    from collections import OrderedDict
    from dds.structures import DDSException

    own = scratch is None
    scratch = scratch or common.Scratch("vf-c08")
    try:
        env = StoreEnv(case["kind"], scratch)
        pool = case["pool"]
        vals = [dec(v) for v in case["vals"]]
        blobs = {}
        paths = {}
        reopened_after_commit = False

        def fail(msg):
            raise Violation(f"[{case['kind']}] {msg}; pool={pool} ops={case['ops']}", case)

        def scan(when):
            for k, v in blobs.items():
                if not env.store.has_blob(k):
                    fail(f"{when}: stored key {k[:6]} reported absent")
                got = env.store.fetch_blob(k)
                if not same(got, v):
                    fail(f"{when}: key {k[:6]} fetched {got!r}, stored {v!r}")
            for p in pool:
                if p in paths:
                    try:
                        got = dict(env.store.fetch_paths([mkpath(p)]))
                    except BaseException as e:
                        fail(f"{when}: committed path {p} does not resolve: {type(e).__name__}: {e}")
                    if got.get(p) != paths[p]:
                        fail(f"{when}: path {p} resolves to {str(got.get(p))[:6]}, committed with {paths[p][:6]}")
                else:
                    try:
                        got = dict(env.store.fetch_paths([mkpath(p)]))
                    except BaseException:
                        continue
                    fail(f"{when}: path {p} was never committed but resolves to {str(got.get(p))[:6]} (aliasing)")
            if case["kind"] in ("local", "lru-local"):
                esc = env.escaped_entries()
                if esc:
                    fail(f"{when}: entries created outside the store directories: {esc}")
            if case["kind"] == "dbfs":
                # full commit: the object of every committed path is exported at <data_dir>/<segments>
                for p in pool:
                    if p in paths and isinstance(blobs.get(paths[p]), (str, bytes)):
                        v = blobs[paths[p]]
                        want = v.encode("utf-8") if isinstance(v, str) else v
                        fp = os.path.join(env.dir, "dbfsroot", "data", *segs_of(p))
                        try:
                            with open(fp, "rb") as fh:
                                got = fh.read()
                        except OSError as e:
                            fail(f"{when}: the object of the committed path {p} is not at its location under the data directory ({e})")
                        if got != want:
                            fail(f"{when}: the file of the committed path {p} under the data directory holds {got[:40]!r}, committed {want[:40]!r}")

        for step, o in enumerate(case["ops"]):
            kind = o[0]
            if kind == "store":
                k = KEYS[o[1]]
                env.store.store_blob(k, vals[o[1]], None)
                blobs[k] = vals[o[1]]
            elif kind == "has":
                k = KEYS[o[1]]
                if bool(env.store.has_blob(k)) != (k in blobs):
                    fail(f"step {step}: has_blob({k[:6]}) = {env.store.has_blob(k)} but model says {k in blobs}")
            elif kind == "fetch":
                k = KEYS[o[1]]
                if k in blobs:
                    got = env.store.fetch_blob(k)
                    if not same(got, blobs[k]):
                        fail(f"step {step}: fetch_blob({k[:6]}) = {got!r}, stored {blobs[k]!r}")
            elif kind == "sync":
                if not blobs or not pool:
                    continue
                stored = sorted(blobs)
                d = OrderedDict()
                for (pi, ki) in o[1]:
                    d[mkpath(pool[pi % len(pool)])] = stored[ki % len(stored)]
                env.store.sync_paths(d)
                paths.update(d)
            elif kind == "paths":
                if not pool:
                    continue
                ps = [pool[i % len(pool)] for i in o[1]]
                if all(p in paths for p in ps):
                    got = dict(env.store.fetch_paths([mkpath(p) for p in ps]))
                    want = {p: paths[p] for p in ps}
                    if got != want:
                        fail(f"step {step}: fetch_paths({ps}) = {short(got)}, model {short(want)}")
            elif kind == "early":
                # a path committed with a key whose blob only arrives afterwards; a read is attempted in between (it may fail
                # or give the key); once the blob is stored the path resolves to the key it was committed with
                if not pool or case["kind"] == "dbfs" or KEYS[o[2]] in blobs:
                    continue
                k, p = KEYS[o[2]], pool[o[1] % len(pool)]
                try:
                    env.store.sync_paths(OrderedDict([(mkpath(p), k)]))
                except BaseException:
                    continue
                try:
                    early = dict(env.store.fetch_paths([mkpath(p)])).get(p)
                except BaseException:
                    early = k
                if early != k:
                    fail(f"step {step}: path {p} committed with {k[:6]} (blob not stored yet) resolves to {str(early)[:6]}")
                env.store.store_blob(k, vals[o[2]], None)
                blobs[k] = vals[o[2]]
                paths[p] = k
            elif kind == "reopen":
                env.open()
                if len(paths) >= 2:
                    reopened_after_commit = True
                scan(f"after reopen at step {step}")
            else:
                raise common.HarnessError(kind)
            scan(f"after step {step} {o}") if kind in ("sync", "early") else None
        scan("at the end")
        if ev is not None:
            committed = [p for p in pool if p in paths]
            amb = any(
                "".join(segs_of(a)) == "".join(segs_of(b)) or segs_of(a)[:-1] == segs_of(b)[:-1]
                for a, b in itertools.combinations(committed, 2)
            )
            ev.case(case, amb and reopened_after_commit, features=[case["kind"]] + (["ambiguous-or-shared-dir"] if amb else []) + (["reopen-after-commit"] if reopened_after_commit else []))
    finally:
        if own:
            scratch.clean()


def same(a, b):
    if isinstance(a, bytearray):
        a = bytes(a)
    return type(a) == type(b) and a == b


def short(d):
    return {p: str(k)[:6] for p, k in d.items()}


# ---- dot-path sub-domain -------------------------------------------------------------------------

def dot_paths():
    alpha = ["a", "b", ".", "..", ""]
    out = []
    for n in (1, 2, 3):
        for t in itertools.product(alpha, repeat=n):
            p = "/" + "/".join(t)
            if any(s in (".", "..") for s in t) or "" in t:
                out.append(p)
    return sorted(set(out))


def check_dot_case(case, ev=None, scratch=None):
    """Commit neighbours first, then the dotted path with another key; nothing may alias or escape."""
    from collections import OrderedDict
    from dds.structures import DDSException

    own = scratch is None
    scratch = scratch or common.Scratch("vf-c08")
    try:
        env = StoreEnv(case["kind"], scratch)
        p = case["path"]
        k1, k2 = KEYS[0], KEYS[1]
        env.store.store_blob(k1, "one", None)
        env.store.store_blob(k2, "two", None)
        neigh = [q for q in ["/a", "/b", "/x/a", "/x/b"] if segs_of(q) != segs_of(p) and not prefix_related(segs_of(q), segs_of(p))]
        env.store.sync_paths(OrderedDict((mkpath(q), k1) for q in neigh))
        outcome = "committed"
        try:
            dp = mkpath(p)
            env.store.sync_paths(OrderedDict([(dp, k2)]))
        except BaseException as e:
            # any refusal is acceptable (the property only forbids aliasing and escaping)
            outcome = "rejected" if isinstance(e, DDSException) else "error"
        for q in neigh:
            try:
                got = dict(env.store.fetch_paths([mkpath(q)])).get(q)
            except Exception as e:  # noqa
                raise Violation(f"[{case['kind']}] the committed path {q} does not resolve after committing {neigh} and then {p!r}: {type(e).__name__}: {str(e)[:200]}", case)
            if got != k1:
                raise Violation(f"[{case['kind']}] committing {p!r} changed what {q} resolves to (aliasing)", case)
        if case["kind"] in ("local", "lru-local"):
            esc = env.escaped_entries()
            if esc:
                raise Violation(f"[{case['kind']}] committing {p!r} created entries outside the data directory: {esc}", case)
        if outcome == "committed" and segs_of(p):
            try:
                got = dict(env.store.fetch_paths([mkpath(p)])).get(p)
            except Exception as e:  # noqa
                raise Violation(f"[{case['kind']}] {p!r} was accepted for commit but does not resolve: {type(e).__name__}: {str(e)[:200]}", case)
            if got != k2:
                raise Violation(f"[{case['kind']}] committed {p!r} resolves to {str(got)[:6]}", case)
        if ev is not None:
            ev.case(case, any(s in (".", "..") for s in p.split("/")), features=["dot:" + case["kind"], "dot:" + outcome])
    finally:
        if own:
            scratch.clean()


PREFIX_GROUPS = [(["/ab/a/b", "/ab/a/ab"], "/ab/a"), (["/a/b"], "/a"), (["/x/y/z"], "/x"), (["/a"], "/a/b"), (["/x/y"], "/x/y/z/w")]


def check_prefix_case(case, ev=None, scratch=None):
    """Some paths are committed, then one that is a prefix (or an extension) of them: the store may refuse the second commit
    (a location cannot be a file and a directory), but what was committed before must keep resolving to the same key."""
    from collections import OrderedDict

    own = scratch is None
    scratch = scratch or common.Scratch("vf-c08")
    try:
        env = StoreEnv(case["kind"], scratch)
        first, second = case["first"], case["second"]
        k1, k2 = KEYS[0], KEYS[1]
        env.store.store_blob(k1, "one", None)
        env.store.store_blob(k2, "two", None)
        env.store.sync_paths(OrderedDict((mkpath(q), k1) for q in first))
        outcome = "committed"
        try:
            env.store.sync_paths(OrderedDict([(mkpath(second), k2)]))
        except BaseException:  # noqa
            outcome = "refused"
        for reopen in (False, True):
            if reopen:
                env.open()
            for q in first:
                try:
                    got = dict(env.store.fetch_paths([mkpath(q)])).get(q)
                except BaseException as e:  # noqa
                    raise Violation(f"[{case['kind']}] after the commit of {second!r} was {outcome}, the earlier path {q} no longer resolves ({type(e).__name__}: {str(e)[:150]})"
                                    f"{' after reopening the store' if reopen else ''}", case)
                if got != k1:
                    raise Violation(f"[{case['kind']}] after the commit of {second!r} was {outcome}, the earlier path {q} resolves to {str(got)[:6]} instead of its key", case)
            if outcome == "committed":
                try:
                    got = dict(env.store.fetch_paths([mkpath(second)])).get(second)
                except BaseException as e:  # noqa
                    raise Violation(f"[{case['kind']}] {second!r} was accepted for commit next to {first} but does not resolve: {type(e).__name__}", case)
                if got != k2:
                    raise Violation(f"[{case['kind']}] {second!r} was committed next to {first} but resolves to {str(got)[:6]}", case)
        if ev is not None:
            ev.case(case, True, features=["prefix-related-commit:" + case["kind"], "prefix:" + outcome])
    finally:
        if own:
            scratch.clean()


def shard(idx, n, tier, seed, count):
    ev = Ev()
    scratch = common.Scratch("vf-c08")
    try:
        dots = [{"kind": k, "path": p, "dot": True} for k in KINDS for p in dot_paths()]
        for i in range(idx, len(dots), n):
            check_dot_case(dots[i], ev, scratch)
        pref = [{"kind": k, "first": f, "second": s_, "prefix": True} for k in KINDS for (f, s_) in PREFIX_GROUPS]
        for i in range(idx, len(pref), n):
            check_prefix_case(pref[i], ev, scratch)
        v = common.hyp_drive(case_strategy(), lambda c: check_case(c, ev, scratch), seed * 1000 + 800 + idx, count, ev)
    finally:
        scratch.clean()
    return ev, v


def run(tier, seed, scale=1.0):
    count = int((50 if tier == "quick" else 1500) * scale)
    return common.run_shards(shard, 16, tier=tier, seed=seed, count=count)


def replay(case):
    if case.get("prefix"):
        return check_prefix_case(case)
    if case.get("dot"):
        check_dot_case(case)
    else:
        check_case(case)
