"""C06 - a process killed at any instant never leaves a store that serves wrong data.

Generated: scenarios (PipeLang pipeline, optional earlier version already evaluated, object cache on/off,
store directories existing or not).  For each scenario the victim process runs under the FS-operation proxy;
its complete list of operation boundaries (including both halves of every raw write) is enumerated and the
victim is SIGKILLed at every one of them.  Oracle (in un-instrumented observer / recovery processes on the
surviving directory tree): paths committed before the crash load their old or their new complete value; the
same pipeline evaluates to exactly the model values without any clean-up; a second evaluation runs nothing.
"""
import os
import shutil

from .. import common
from ..common import Ev, Violation
from ..harness import sched, worker
from ..pipelang import model as M
from ..pipelang import gen as G
from . import c01, c11

ID = "C06"
LEVEL = "fault_enumeration"
RULE = (
    "Hypothesis-generated scenarios: a PipeLang pipeline (results as tuples / text / bytes, nested keeps, keeps with "
    "arguments) evaluated on a local store that is {fresh and non-existing, fresh and pre-created, populated by an earlier "
    "version of the pipeline (re-keep with changed code), populated by the same version, populated through another data view}, "
    "with or without the object cache; in one scenario of three every simulated process runs under the same pid and the process "
    "after the crash evaluates a further edited pipeline. "
    "The victim process (store creation + evaluation) runs with every os.* / open / raw read / raw write (split in two halves) "
    "/ close of the dds I/O modules turned into a boundary; it is killed (SIGKILL) at EVERY boundary of its trace in turn, "
    "each time from an identical copy of the initial store. After each kill: an observer process loads every path committed "
    "before the crash (must be its old or its new value), a recovery process evaluates the pipeline (must equal the reference "
    "model), loads every path (after its first and after its second evaluation), and evaluates again (no kept function may run). Non-trivial = the kill lies strictly between "
    "the first and the last mutating operation of the victim; distinct by (scenario, boundary index)."
)
ASSUMPTIONS = [
    "kill -9 semantics: completed system calls are durable, user-space buffers are lost; no power-loss reordering",
    "boundaries are the Python-level os/open calls of dds.store, dds.codecs.builtins, dds._lru_store, dds._api (os.makedirs is expanded into its stat/mkdir steps)",
    "a proxied run and an un-proxied run of the victim must leave the same directory tree (checked per scenario; disagreement = harness error)",
]

MUTATING = ("mkdir", "open:w", "write", "close", "remove", "unlink", "symlink", "rename", "replace", "rmdir", "link")


def scenario_strategy(opts):
    from hypothesis import strategies as st

    @st.composite
    def gen(draw):
        prog = draw(G.programs(opts))
        ents = G.entries(prog)
        root, style = draw(st.sampled_from(ents[-2:] if len(ents) > 1 else ents))
        start = draw(st.sampled_from(["fresh_missing", "fresh_created", "old_version", "old_version", "same_version", "other_view", "fresh_nested"]))
        old = prog
        for _ in range(draw(st.integers(1, 2))):
            old = M.apply_edit(old, draw(G.edits(old, root, kinds=["setvar", "bump", "setlit", "bump"], opts=opts)))
        third = M.apply_edit(prog, draw(G.edits(prog, root, kinds=["setvar", "bump", "setlit", "bump"], opts=opts)))
        return {"prog": prog, "old": old, "root": root, "style": style, "start": start, "cache": draw(st.sampled_from([None, None, 2])),
                "same_pid": draw(st.integers(0, 2)) == 0, "third": third}

    return gen()


def write_prog(root_dir, prog):
    files = M.render(prog)
    files["vlog.py"] = worker.VLOG_SRC
    for rel, content in files.items():
        p = os.path.join(root_dir, rel)
        os.makedirs(os.path.dirname(p), exist_ok=True)
        with open(p, "w") as f:
            f.write(content)


class FixedPid(object):
    """`os` as seen by dds.store, with a constant getpid(): every simulated process re-uses the pid of the previous
    one (the worst case for names derived from the pid)"""

    def __init__(self, inner, pid):
        self._inner, self._pid = inner, pid

    def getpid(self):
        return self._pid

    def kill(self, pid, sig):
        # a liveness probe of the re-used pid succeeds: the pid of the dead process now belongs to a live one (this one)
        if pid == self._pid and sig == 0:
            return None
        return self._inner.kill(pid, sig)

    def __getattr__(self, name):
        return getattr(self._inner, name)


def process_fn(root_dir, store_dir, prog, root, style, cache, evals=1, loads=(), data="data", fixed_pid=None):
    """the body of one simulated dds process: open the local store, evaluate `evals` times, load some paths"""
    f = prog["funcs"][root]
    modname, fname = M.modname(prog, f["mod"]), f["name"]
    pkg = prog.get("pkg", M.PKG)

    def fn():
        import importlib
        import sys

        sys.path.insert(0, root_dir)
        importlib.invalidate_caches()
        import dds
        import vlog

        dds.accept_module(pkg)
        if fixed_pid:
            import dds.store as _dstore

            _dstore.os = FixedPid(_dstore.os, fixed_pid)
        dds.set_store("local", internal_dir=os.path.join(store_dir, "internal"), data_dir=os.path.join(store_dir, data), cache_objects=cache)
        out = {"evals": [], "loads": {}}
        for p in loads:
            try:
                out["loads"][p] = ("ok", dds.load(p))
            except BaseException as e:  # noqa
                out["loads"][p] = ("exc", f"{type(e).__name__}: {e}"[:300])
        for _ in range(evals):
            fun = getattr(importlib.import_module(modname), fname)
            vlog.take()
            val = dds.eval(fun) if style == "eval" else fun()
            out["evals"].append((val, vlog.take()))
            if "loads_first" not in out:
                out["loads_first"] = {}
                for p in loads:
                    try:
                        out["loads_first"][p] = ("ok", dds.load(p))
                    except BaseException as e:  # noqa
                        out["loads_first"][p] = ("exc", f"{type(e).__name__}: {e}"[:300])
        out["loads_after"] = {}
        for p in loads:
            try:
                out["loads_after"][p] = ("ok", dds.load(p))
            except BaseException as e:  # noqa
                out["loads_after"][p] = ("exc", f"{type(e).__name__}: {e}"[:300])
        return out

    return fn


def copy_store(src, dst):
    shutil.rmtree(dst, ignore_errors=True)
    if os.path.isdir(src):
        shutil.copytree(src, dst, symlinks=True)
        # links are absolute: re-point them into the copy
        for dp, dn, fn in os.walk(os.path.join(dst, "data")):
            for n in fn:
                p = os.path.join(dp, n)
                if os.path.islink(p):
                    t = os.readlink(p)
                    if t.startswith(src):
                        os.remove(p)
                        os.symlink(dst + t[len(src):], p)


def tree_shape(d):
    """directory tree with file contents (metadata timestamps and temporary names masked)"""
    out = {}
    for dp, dn, fn in os.walk(d):
        for n in fn + dn:
            p = os.path.join(dp, n)
            rel = os.path.relpath(p, d)
            if os.path.islink(p):
                out[rel] = ("link", os.path.basename(os.readlink(p)))
            elif os.path.isfile(p):
                out[rel] = ("meta",) if n.endswith(".meta") else ("file", open(p, "rb").read())
            else:
                out[rel] = ("dir",)
    return out


def check_scenario(sc, ev=None, scratch=None, only_k=None):
    own = scratch is None
    scratch = scratch or common.Scratch("vf-c06")
    import dds  # noqa: loaded (never used) in this process so that the forked children need not import it
    try:
        base = scratch.sub()
        root_new = os.path.join(base, "src_new")
        root_old = os.path.join(base, "src_old")
        template = os.path.join(base, "template")
        live = os.path.join(base, "live")   # always the same name: absolute link targets stay valid
        prog, root, style, cache = sc["prog"], sc["root"], sc["style"], sc["cache"]
        pid = 4242 if sc.get("same_pid") else None
        root_third = os.path.join(base, "src_third")
        write_prog(root_new, prog)
        exp_new, it_new = M.expected_value(prog, root)
        pre = {}
        what = f"start={sc['start']} cache={cache} style={style}"
        # ---- initial store
        vdata = "dataB" if sc["start"] == "other_view" else "data"   # the victim's data directory
        if sc["start"] == "fresh_nested":
            vdata = "internal/views/data"   # nothing exists yet and the data directory lies inside the internal directory
        if sc["start"] in ("old_version", "same_version", "other_view"):
            p0 = sc["old"] if sc["start"] in ("old_version", "other_view") else prog
            write_prog(root_old, p0)
            r = sched.run_plain(process_fn(root_old, live, p0, root, style, cache, fixed_pid=pid))
            if r[0] != "ok":
                raise Violation(f"{what}: populating the store raised {r[1]}", sc)
            _, it_old = M.expected_value(p0, root)
            # (second data view on the same internal directory: nothing is committed in the victim's view yet)
            pre = dict(it_old.kept) if sc["start"] != "other_view" else {}
        elif sc["start"] == "fresh_created":
            os.makedirs(os.path.join(live, "internal", "blobs"))
            os.makedirs(os.path.join(live, "data"))
        copy_store(live, template)
        all_paths = sorted(set(pre) | set(it_new.kept))
        victim = process_fn(root_new, live, prog, root, style, cache, data=vdata, fixed_pid=pid)
        # with a re-used pid the process that comes after the crash runs a further edited version of the code
        rec_prog, rec_root_dir = prog, root_new
        if pid and sc.get("third"):
            rec_prog, rec_root_dir = sc["third"], root_third
            write_prog(root_third, rec_prog)
        exp_rec, it_rec = M.expected_value(rec_prog, root)
        # ---- dry run under the proxy (no kill): trace + result + agreement with an un-proxied run
        copy_store(template, live)
        dry = sched.run([victim])
        if dry["blocked"]:
            return  # inconclusive
        res = dry["results"][0]
        if res[0] != "ok" or res[1]["evals"][0][0] != exp_new:
            raise Violation(f"{what}: the victim (not killed) returned {res!r}, expected {exp_new!r}", sc)
        trace = [(op, path) for (_s, op, path) in dry["trace"]]
        shape_proxied = tree_shape(live)
        copy_store(template, live)
        sched.run_plain(victim)
        if tree_shape(live) != shape_proxied:
            raise common.HarnessError(f"the proxied and the plain run of the victim leave different trees: {sorted(set(tree_shape(live).items()) ^ set(shape_proxied.items()), key=str)[:6]}")
        n = len(trace)
        mut = [i for i, (op, _p) in enumerate(trace) if op.startswith(MUTATING)]
        first_mut, last_mut = (mut[0], mut[-1]) if mut else (n, -1)
        ks = range(1, n) if only_k is None else [only_k]
        for k in ks:
            copy_store(template, live)
            run = sched.run([victim], kill=(0, k))
            if not run["killed"]:
                raise common.HarnessError(f"victim finished before boundary {k} (trace is not deterministic): {run['trace'][-3:]}")
            at = f"{what}: victim killed before operation #{k} {trace[k]} (after {trace[k - 1]})"
            # observer: paths committed before the crash
            obs = sched.run_plain(process_fn(root_new, live, prog, root, style, cache, evals=0, loads=sorted(pre), data=vdata, fixed_pid=pid))
            if obs[0] != "ok":
                raise Violation(f"{at}: opening the store afterwards raised {obs[1]['type']}: {obs[1]['msg'][:200]}", dict(sc, k=k))
            for p, (st, v) in obs[1]["loads"].items():
                new_v = it_new.kept.get(p, pre[p])
                if st != "ok":
                    raise Violation(f"{at}: the path {p} committed before the crash no longer loads: {v}", dict(sc, k=k))
                if v != pre[p] and v != new_v:
                    raise Violation(f"{at}: the path {p} loads {v!r}, neither its old value {pre[p]!r} nor its new value {new_v!r}", dict(sc, k=k))
            # recovery: evaluate twice, load everything
            rec_paths = sorted(set(all_paths if vdata == "data" else it_new.kept) | set(it_rec.kept))
            rec = sched.run_plain(process_fn(rec_root_dir, live, rec_prog, root, style, cache, evals=2, loads=rec_paths, data=vdata, fixed_pid=pid))
            if rec[0] != "ok":
                raise Violation(f"{at}: the next process evaluating the pipeline raised {rec[1]['type']}: {rec[1]['msg'][:300]}", dict(sc, k=k))
            (v1, log1), (v2, log2) = rec[1]["evals"]
            if v1 != exp_rec:
                raise Violation(f"{at}: the next process evaluating the pipeline got {v1!r}, expected {exp_rec!r}", dict(sc, k=k))
            if v2 != exp_rec:
                raise Violation(f"{at}: the second evaluation after recovery got {v2!r}, expected {exp_rec!r}", dict(sc, k=k))
            idle = set(M.sim_log(rec_prog, root, lambda p: False))
            ran = [x for x in log2 if x not in idle]
            if ran:
                raise Violation(f"{at}: the second evaluation after recovery re-executed {sorted(set(ran))}", dict(sc, k=k))
            for when in ("loads_first", "loads_after"):
                for p, (st, v) in rec[1][when].items():
                    want = it_rec.kept.get(p, it_new.kept.get(p, pre.get(p)))
                    if p not in it_rec.kept and p in it_new.kept and st == "ok" and v in (it_new.kept[p], pre.get(p)):
                        continue   # kept by the victim only: its old or its new value, depending on where the victim died
                    if st != "ok" or v != want:
                        raise Violation(f"{at}: after recovery ({'first' if when == 'loads_first' else 'second'} evaluation) the path {p} loads {v!r} ({st}), expected {want!r}", dict(sc, k=k))
            if ev is not None:
                ev.case({"start": sc["start"], "cache": cache, "boundary": k, "op": list(trace[k]), "of": n,
                         "program": c01.slim({"prog": prog, "store": None, "steps": []})["program"] if len(ev.samples) < 3 else "(omitted)"},
                        first_mut < k <= last_mut, features=["start:" + sc["start"], "killed-before:" + trace[k][0].split(".")[0].split(":")[0]]
                        + (["cache"] if cache else []) + (["pid-reused+further-edit"] if pid else []), key=[M.pkey(prog), sc["start"], cache, style, k, bool(pid)])
        if ev is not None:
            ev.extra["scenarios"] = ev.extra.get("scenarios", 0) + 1
            ev.extra["boundaries"] = ev.extra.get("boundaries", 0) + n
    finally:
        if own:
            scratch.clean()


# ---- a result written by a user codec straight into the final blob file ------------------------------------------------

CODEC_SRC = """import dds
import vlog
from vf.harness.c06_codec import Table

VS = {vs}


@dds.data_function('/tbl')
def f():
    vlog.rec('f')
    return Table(['row%d' % (VS * 10 + i) for i in range({n})])
"""


def codec_process_fn(root_dir, store_dir, cache, evals=1, loads=()):
    def fn():
        import importlib
        import sys

        sys.path.insert(0, root_dir)
        importlib.invalidate_caches()
        import dds
        import vlog
        from ..harness import c06_codec

        dds.accept_module("pk")
        dds.set_store("local", internal_dir=os.path.join(store_dir, "internal"), data_dir=os.path.join(store_dir, "data"), cache_objects=cache)
        dds._api._store().codec_registry().add_codec(c06_codec.make_codec())
        out = {"evals": [], "loads": {}, "loads_after": {}}

        def do_loads(into):
            for p in loads:
                try:
                    into[p] = ("ok", dds.load(p).rows)
                except BaseException as e:  # noqa
                    into[p] = ("exc", f"{type(e).__name__}: {e}"[:300])

        do_loads(out["loads"])
        for _ in range(evals):
            fun = getattr(importlib.import_module("pk.m0"), "f")
            vlog.take()
            val = fun()
            out["evals"].append((getattr(val, "rows", val), vlog.take()))
            if "loads_first" not in out:
                out["loads_first"] = {}
                do_loads(out["loads_first"])
        do_loads(out["loads_after"])
        return out

    return fn


def codec_strategy():
    from hypothesis import strategies as st

    return st.fixed_dictionaries({"codec": st.just(True), "start": st.sampled_from(["fresh", "old_version"]), "rows": st.integers(1, 3), "cache": st.sampled_from([None, 2])})


def check_codec_scenario(sc, ev=None, scratch=None, only_k=None):
    own = scratch is None
    scratch = scratch or common.Scratch("vf-c06")
    import dds  # noqa
    from ..harness import c06_codec  # noqa: loaded before the fork
    try:
        base = scratch.sub()
        live, template = os.path.join(base, "live"), os.path.join(base, "template")
        n = sc["rows"]
        rows = {tag: ["row%d" % (vs * 10 + i) for i in range(n)] for tag, vs in (("old", 1), ("new", 2))}
        dirs = {}
        for tag, vs in (("old", 1), ("new", 2)):
            dirs[tag] = os.path.join(base, "src_" + tag)
            for rel, content in {"pk/__init__.py": "", "pk/m0.py": CODEC_SRC.format(vs=vs, n=n), "vlog.py": worker.VLOG_SRC}.items():
                p = os.path.join(dirs[tag], rel)
                os.makedirs(os.path.dirname(p), exist_ok=True)
                with open(p, "w") as f:
                    f.write(content)
        what = f"user codec writing into the final blob file, start={sc['start']} cache={sc['cache']} rows={n}"
        pre = None
        if sc["start"] == "old_version":
            r = sched.run_plain(codec_process_fn(dirs["old"], live, sc["cache"]))
            if r[0] != "ok":
                raise Violation(f"{what}: populating the store raised {r[1]}", sc)
            pre = rows["old"]
        copy_store(live, template)
        victim = codec_process_fn(dirs["new"], live, sc["cache"])
        copy_store(template, live)
        dry = sched.run([victim])
        if dry["blocked"]:
            return
        res = dry["results"][0]
        if res[0] != "ok" or res[1]["evals"][0][0] != rows["new"]:
            raise Violation(f"{what}: the victim (not killed) returned {res!r}", sc)
        trace = [(op, path) for (_s, op, path) in dry["trace"]]
        nb = len(trace)
        for k in (range(1, nb) if only_k is None else [only_k]):
            copy_store(template, live)
            run = sched.run([victim], kill=(0, k))
            if not run["killed"]:
                raise common.HarnessError(f"victim finished before boundary {k}")
            at = f"{what}: victim killed before operation #{k} {trace[k]} (after {trace[k - 1]})"
            case = dict(sc, k=k)
            if pre is not None:
                obs = sched.run_plain(codec_process_fn(dirs["new"], live, sc["cache"], evals=0, loads=["/tbl"]))
                if obs[0] != "ok" or obs[1]["loads"]["/tbl"] not in (("ok", pre), ("ok", rows["new"])):
                    raise Violation(f"{at}: the path committed before the crash loads {obs[1] if obs[0] != 'ok' else obs[1]['loads']['/tbl']!r}, neither its old nor its new value", case)
            rec = sched.run_plain(codec_process_fn(dirs["new"], live, sc["cache"], evals=2, loads=["/tbl"]))
            if rec[0] != "ok":
                raise Violation(f"{at}: the next process evaluating the pipeline raised {rec[1]['type']}: {rec[1]['msg'][:300]}", case)
            (v1, _l1), (v2, l2) = rec[1]["evals"]
            if v1 != rows["new"] or v2 != rows["new"]:
                raise Violation(f"{at}: the next process evaluated to {v1!r} then {v2!r}, expected {rows['new']!r}", case)
            if "f" in l2:
                raise Violation(f"{at}: the second evaluation after recovery re-executed the function", case)
            for when in ("loads_first", "loads_after"):
                if rec[1][when]["/tbl"] != ("ok", rows["new"]):
                    raise Violation(f"{at}: after recovery the path loads {rec[1][when]['/tbl']!r}, expected {rows['new']!r}", case)
            if ev is not None:
                ev.case({"user_codec": True, "start": sc["start"], "cache": sc["cache"], "boundary": k, "op": list(trace[k]), "of": nb}, 1 < k < nb - 1,
                        features=["user-codec-direct-write", "start:" + sc["start"], "killed-before:" + trace[k][0].split(".")[0].split(":")[0]],
                        key=["codec", sc["start"], sc["cache"], n, k])
    finally:
        if own:
            scratch.clean()


def shard(idx, n, tier, seed, count):
    ev = Ev()
    import dds  # noqa: imported once so that the forked children inherit the loaded (unused) modules
    scratch = common.Scratch("vf-c06")
    opts = {"exclude": common.open_features(ID), "max_funcs": 4, "max_mods": 1, "rets": True, "classes": False, "data_den": 2}
    try:
        v = common.hyp_drive(scenario_strategy(opts), lambda c: check_scenario(c, ev, scratch), seed * 1000 + 600 + idx, count, ev, shrink_budget=12)
        if v is None and idx % 4 == 1:
            v = common.hyp_drive(codec_strategy(), lambda c: check_codec_scenario(c, ev, scratch), seed * 1000 + 650 + idx, 2 if tier == "quick" else 8, ev, shrink_budget=4)
    finally:
        scratch.clean()
    ev.exhaustive = True
    return ev, v


def run(tier, seed, scale=1.0):
    count = int((2 if tier == "quick" else 30) * scale)
    return common.run_shards(shard, 16, tier=tier, seed=seed, count=count)


def replay(case):
    if case.get("codec"):
        return check_codec_scenario({x: y for x, y in case.items() if x != "k"}, only_k=case.get("k"))
    k = case.get("k")
    sc = {x: y for x, y in case.items() if x != "k"}
    check_scenario(sc, only_k=k)
