"""C16 - every usable local-store configuration works; data dirs are independent views.

Generated: configurations (form of internal_dir / data_dir: absolute, relative, trailing separator, nested
non-existing, parent reached through a symlink, pre-existing; cache_objects option) x PipeLang program x
histories (keep, load, chdir, restart in another cwd, second data view on the same internal dir, edits).
Oracle: keep->load round trip in the same and in a fresh process; the second view executes no kept function
(blobs shared) and each view serves its own last committed values.
"""
import os

from .. import common
from ..common import Ev, Violation
from ..harness import proc
from ..pipelang import model as M
from ..pipelang import gen as G
from . import c01

ID = "C16"
LEVEL = "exploration"
RULE = (
    "Hypothesis-generated: form of internal_dir and of data_dir drawn independently from {absolute, relative to cwd, "
    "relative with '..', trailing slash, nested non-existing, through a symlinked parent, pre-existing}, cache_objects in "
    "{None, False, True, 0, -1, 2}, a PipeLang program and one edit. Fixed history per case: P1 evaluates and loads every "
    "path, changes its working directory, loads and evaluates again, then configures the store a second time with the same arguments "
    "(relative forms now designate fresh locations) and a fresh process reads those; a fresh process P2 started in another directory opens "
    "the same locations (absolute) and loads / re-evaluates; view B (same internal dir, other data dir) evaluates: nothing "
    "kept may run; the program is edited and evaluated in B; view A must still serve the old values until it evaluates the "
    "new code, which must run nothing kept; finally a second empty internal directory takes over the data directory, the first one is moved elsewhere (the second must "
    "still serve everything), then the moved one is opened with the old data directory (nothing kept may run, links re-pointed) and the second deleted. Non-trivial = a non-absolute or symlinked directory form, or the two-view part "
    "reached with >=1 kept node; distinct by (forms, cache, program)."
)
ASSUMPTIONS = [
    "a relative directory is interpreted when set_store is called; another process is given the same absolute location",
    "usable = the process can create and write the directories",
    "the implicit store of a program that never calls set_store and set_store('local') without directories are the same 'default store' "
    "(dds.set_store docstring); its literal location is not asserted",
]

FORMS = ["abs", "rel", "rel_dotdot", "trailing", "nested", "symlink", "symlink_deep", "preexisting", "otherfs", "prefixname"]
OTHER_FS = "/dev/shm"   # a second file system, when the machine has one that is writable (else the form falls back to "abs")
CACHES = [None, False, True, 0, -1, 2]


def case_strategy(opts):
    from hypothesis import strategies as st

    @st.composite
    def gen(draw):
        prog = draw(G.programs(opts))
        ents = [e for e in G.entries(prog) if e[1] == "eval"]
        root = draw(st.sampled_from(ents[-2:] if len(ents) > 1 else ents))[0]
        ed = draw(G.edits(prog, root, kinds=["setvar", "bump", "setlit"], opts=opts))
        return {"prog": prog, "root": root, "edit": ed, "iform": draw(st.sampled_from(FORMS)), "dform": draw(st.sampled_from(FORMS)),
                "cache": draw(st.sampled_from(CACHES))}

    return gen()


def location(base, name, form, cwd):
    """returns (argument given to set_store, absolute location)"""
    if form == "abs":
        p = os.path.join(base, name)
        return p, p
    if form == "rel":
        return os.path.join("r", name), os.path.join(cwd, "r", name)
    if form == "rel_dotdot":
        return os.path.join("..", "up_" + name), os.path.normpath(os.path.join(cwd, "..", "up_" + name))
    if form == "trailing":
        p = os.path.join(base, name)
        return p + "/", p
    if form == "nested":
        p = os.path.join(base, "n1", "n2", "n3", name)
        return p, p
    if form == "symlink":
        real = os.path.join(base, "real_" + name)
        os.makedirs(real, exist_ok=True)
        lnk = os.path.join(base, "lnk_" + name)
        if not os.path.lexists(lnk):
            os.symlink(real, lnk)
        return os.path.join(lnk, name), os.path.join(lnk, name)
    if form == "symlink_deep":
        # the directory is reached through a link whose real target sits at another depth of the tree
        real = os.path.join(base, "volumes", "disk0", "part_" + name)
        os.makedirs(real, exist_ok=True)
        lnk = os.path.join(base, "mnt_" + name)
        if not os.path.lexists(lnk):
            os.symlink(real, lnk)
        return os.path.join(lnk, name), os.path.join(lnk, name)
    if form == "otherfs":
        # the directory lives on another file system than the other directory of the store
        try:
            usable = os.path.isdir(OTHER_FS) and os.access(OTHER_FS, os.W_OK) and os.stat(OTHER_FS).st_dev != os.stat(base).st_dev
        except OSError:
            usable = False
        if not usable:
            p = os.path.join(base, name)
            return p, p
        p = os.path.join(OTHER_FS, "vf-c16-" + common.chash(base), name)
        return p, p
    if form == "prefixname":
        # a sibling whose name merely starts with the name of the other directory of the store (<base>/int and <base>/int_dataA)
        p = os.path.join(base, "int" if name == "int" else "int_" + name)
        return p, p
    if form == "preexisting":
        p = os.path.join(base, "pre_" + name)
        os.makedirs(p, exist_ok=True)
        return p, p
    raise ValueError(form)


class P(object):
    """one process"""

    def __init__(self, root, cwd, prog):
        self.w = proc.Worker(cwd=cwd)
        self.w.call("init", root=root, accepted=[prog.get("pkg", M.PKG)], store=None)
        self.prog = prog

    def set_store(self, internal, data, cache):
        # no observing wrapper: set_store sees its own store objects
        try:
            return self.w.call("set_store", kind="local", internal=internal, data=data, cache=cache, raw=True)
        except common.HarnessError as e:
            if "DDSException" in str(e) or "Error" in str(e).splitlines()[-1]:
                # the configuration is usable (the harness created / can create the directories): a refusal is a violation
                raise Violation(f"set_store('local', internal_dir={internal!r}, data_dir={data!r}, cache_objects={cache!r}) failed: {str(e).strip().splitlines()[-1][:300]}",
                                {"set_store_failed": [internal, data, repr(cache)]})
            raise

    def eval(self, root):
        f = self.prog["funcs"][root]
        return self.w.call("eval", module=M.modname(self.prog, f["mod"]), func=f["name"], style="eval")

    def load(self, p):
        return self.w.call("load", path=p)

    def close(self):
        self.w.close()


def write_prog(root_dir, prog, mt):
    for rel, content in M.render(prog).items():
        p = os.path.join(root_dir, rel)
        os.makedirs(os.path.dirname(p), exist_ok=True)
        with open(p, "w") as f:
            f.write(content)
        os.utime(p, (mt, mt))


def check_case(case, ev=None, scratch=None):
    own = scratch is None
    scratch = scratch or common.Scratch("vf-c16")
    procs = []
    try:
        base = scratch.sub()
        cwd0 = os.path.join(base, "cwd0", "sub")
        cwd1 = os.path.join(base, "elsewhere")
        os.makedirs(cwd0)
        os.makedirs(cwd1)
        root_dir = os.path.join(base, "src")
        prog, root = case["prog"], case["root"]
        write_prog(root_dir, prog, 1600000000)
        iarg, iabs = location(base, "int", case["iform"], cwd0)
        darg, dabs = location(base, "dataA", case["dform"], cwd0)
        dB = os.path.join(base, "dataB")
        cfg = f"internal_dir={iarg!r} ({case['iform']}) data_dir={darg!r} ({case['dform']}) cache_objects={case['cache']!r}"
        exp, it = M.expected_value(prog, root)
        paths = dict(it.kept)
        kept_names = {prog["funcs"][s["callee"]]["name"] for s in M.kept_sites(prog, root)}

        def fail(msg):
            raise Violation(f"{cfg}: {msg}", case)

        def check_eval(p, who, expect, must_be_idle):
            r = p.eval(root)
            if r["exc"] is not None:
                fail(f"{who}: evaluation raised {r['exc']['type']}: {r['exc']['msg'][:300]}")
            if r["value"] != expect:
                fail(f"{who}: evaluation returned {r['value']!r}, expected {expect!r}")
            if must_be_idle:
                upper = set(M.sim_log(p.prog, root, lambda path: False))
                ran = [n for n in r["log"] if n not in upper]
                if ran:
                    fail(f"{who}: kept functions {sorted(set(ran))} were executed although their results are in the shared internal directory")
            return r

        def check_loads(p, who, want):
            for path, v in sorted(want.items()):
                r = p.load(path)
                if r["exc"] is not None:
                    fail(f"{who}: dds.load({path!r}) raised {r['exc']['type']}: {r['exc']['msg'][:200]}")
                if r["value"] != v:
                    fail(f"{who}: dds.load({path!r}) = {r['value']!r}, kept value {v!r}")

        # P1: configured with the generated forms, started in cwd0
        p1 = P(root_dir, cwd0, prog)
        procs.append(p1)
        p1.set_store(iarg, darg, case["cache"])
        check_eval(p1, "P1 first evaluation", exp, False)
        check_loads(p1, "P1 after keep", paths)
        p1.w.call("chdir", path=cwd1)
        check_loads(p1, "P1 after chdir", paths)
        check_eval(p1, "P1 after chdir", exp, True)
        # P1 configures the store again with the SAME arguments from its new working directory: relative forms now
        # designate other (fresh) locations, absolute ones the same
        iarg2, iabs2 = location(base, "int", case["iform"], cwd1)
        darg2, dabs2 = location(base, "dataA", case["dform"], cwd1)
        p1.set_store(iarg2, darg2, case["cache"])
        check_eval(p1, "P1 after chdir and a second set_store with the same arguments", exp, iabs2 == iabs)
        check_loads(p1, "P1 after chdir and a second set_store with the same arguments", paths)
        p1b = P(root_dir, cwd0, prog)
        procs.append(p1b)
        p1b.set_store(iabs2, dabs2, case["cache"])
        check_loads(p1b, "fresh process on the locations of P1's second set_store", paths)
        p1b.close()
        p1.set_store(iabs, dabs, case["cache"])
        # P2: fresh process, other cwd, same absolute locations
        p2 = P(root_dir, cwd1, prog)
        procs.append(p2)
        p2.set_store(iabs, dabs, case["cache"])
        check_loads(p2, "P2 (fresh process, other cwd)", paths)
        check_eval(p2, "P2 (fresh process, other cwd)", exp, True)
        # view B on the same internal directory
        p2.set_store(iabs, dB, case["cache"])
        check_eval(p2, "view B first evaluation", exp, True)
        check_loads(p2, "view B", paths)
        # edit, evaluate in B only
        prog2 = M.apply_edit(prog, case["edit"])
        write_prog(root_dir, prog2, 1600000100)
        p3 = P(root_dir, cwd1, prog2)
        procs.append(p3)
        p3.set_store(iabs, dB, case["cache"])
        exp2, it2 = M.expected_value(prog2, root)
        check_eval(p3, "view B after the edit", exp2, False)
        newB = dict(paths)
        newB.update(it2.kept)
        check_loads(p3, "view B after the edit", newB)
        # view A still serves what it committed
        p3.set_store(iabs, dabs, case["cache"])
        check_loads(p3, "view A after view B moved on", paths)
        # view A evaluates the new code: everything is already computed
        check_eval(p3, "view A evaluating the code already computed through view B", exp2, True)
        check_loads(p3, "view A after its own evaluation", newB)
        check_loads(p1, "P1 (still alive, old cwd changed) after everything", newB)
        # a second, empty internal directory takes over the data directory while the first one still exists
        import shutil

        i3 = os.path.join(base, "int_second")
        p4 = P(root_dir, cwd1, prog2)
        procs.append(p4)
        p4.set_store(i3, dabs, case["cache"])
        check_eval(p4, "second internal directory under the old data directory", exp2, False)
        check_loads(p4, "second internal directory under the old data directory", dict(it2.kept))
        p4.close()
        # ... then the first internal directory is moved elsewhere
        i2 = os.path.join(base, "moved", "int_moved")
        os.makedirs(os.path.dirname(i2))
        shutil.move(os.path.realpath(iabs), i2)
        p5 = P(root_dir, cwd0, prog2)
        procs.append(p5)
        p5.set_store(i3, dabs, case["cache"])
        check_loads(p5, "fresh process on the second internal directory after the first one was moved away", dict(it2.kept))
        # the moved internal directory is opened with the old data directory: nothing kept may run, links are re-pointed
        p6 = P(root_dir, cwd1, prog2)
        procs.append(p6)
        p6.set_store(i2, dabs, case["cache"])
        check_eval(p6, "internal directory moved, old data directory", exp2, True)
        check_loads(p6, "internal directory moved, old data directory", dict(it2.kept))
        shutil.rmtree(i3)
        p7 = P(root_dir, cwd0, prog2)
        procs.append(p7)
        p7.set_store(i2, dabs, case["cache"])
        check_loads(p7, "fresh process after the internal directory was moved (the second one deleted)", dict(it2.kept))
        p7.close()
        # every internal directory used so far is deleted: the data directory only holds dangling links; a brand new internal
        # directory takes it over
        shutil.rmtree(i2)
        i4 = os.path.join(base, "int_third")
        p8 = P(root_dir, cwd1, prog2)
        procs.append(p8)
        p8.set_store(i4, dabs, case["cache"])
        check_eval(p8, "new internal directory after all earlier ones were deleted (the data directory holds dangling links)", exp2, False)
        check_loads(p8, "new internal directory after all earlier ones were deleted (the data directory holds dangling links)", dict(it2.kept))
        if ev is not None:
            nt = case["iform"] != "abs" or case["dform"] != "abs" or bool(kept_names)
            ev.case({"iform": case["iform"], "dform": case["dform"], "cache": repr(case["cache"]), "edit": case["edit"],
                     "program": c01.slim({"prog": prog, "store": None, "steps": []})["program"]}, nt,
                    features=["internal:" + case["iform"], "data:" + case["dform"], "cache:" + repr(case["cache"])] + (["kept>=1"] if kept_names else []),
                    key=[M.pkey(prog), case["iform"], case["dform"], repr(case["cache"]), case["edit"]])
    except Violation as v_:
        if isinstance(v_.case, dict) and "set_store_failed" in v_.case:
            raise Violation(v_.msg, case)   # the replay file must carry the generated case
        raise
    finally:
        for p in procs:
            p.close()
        import shutil as _sh

        _sh.rmtree(os.path.join(OTHER_FS, "vf-c16-" + common.chash(base)), ignore_errors=True)
        if own:
            scratch.clean()


DEFAULTS_SRC = """import os
import dds


@dds.data_function('/dflt/p')
def f():
    with open(os.environ['C16_MARK'], 'a') as fh:
        fh.write('x')
    return ('f', 7)
"""

DEFAULTS_MAIN = """import sys, json
sys.path.insert(0, {root!r})
import dds
dds.accept_module('dpk')
cfg = {cfg!r}
if cfg is not None:
    dds.set_store('local', **cfg)
import dpk.m0 as m
out = {{}}
try:
    out['load'] = repr(dds.load('/dflt/p'))
except BaseException as e:
    out['load'] = 'EXC ' + type(e).__name__
out['keep'] = repr(m.f())
out['load_after'] = repr(dds.load('/dflt/p'))
print(json.dumps(out))
"""


def check_defaults(ev, scratch):
    """Directories left to their defaults: the implicit store of a program that never calls set_store and the store configured
    with set_store('local') without directories are both "the default store" of the documentation - what one program keeps, the
    other loads without recomputing."""
    import json
    import subprocess
    import sys

    # (the literal default locations are not asserted: "the exact paths of the default store may change")
    cfgs = [None, {}, {"cache_objects": True}, {"cache_objects": 2}]
    for first in cfgs:
        for second in cfgs:
            if first == second and first is not None:
                continue
            base = scratch.sub()
            tmpd = os.path.join(base, "tmp")
            root = os.path.join(base, "src")
            os.makedirs(tmpd)
            os.makedirs(os.path.join(root, "dpk"))
            open(os.path.join(root, "dpk", "__init__.py"), "w").close()
            with open(os.path.join(root, "dpk", "m0.py"), "w") as f:
                f.write(DEFAULTS_SRC)
            mark = os.path.join(base, "mark")
            env = dict(os.environ)
            env.update({"TMPDIR": tmpd, "C16_MARK": mark, "PYTHONPATH": os.pathsep.join([common.REPO, common.VERIF]), "PYTHONDONTWRITEBYTECODE": "1"})
            outs = []
            for cfg in (first, second):
                p = subprocess.run([sys.executable, "-W", "ignore", "-c", DEFAULTS_MAIN.format(root=root, cfg=cfg)], env=env, cwd=base,
                                   stdout=subprocess.PIPE, stderr=subprocess.PIPE)
                if p.returncode != 0:
                    raise Violation(f"default directories: a program configured with {cfg!r} failed: {p.stderr.decode()[-400:]}", {"defaults": [repr(first), repr(second)]})
                outs.append(json.loads(p.stdout.decode().strip().splitlines()[-1]))
            what = f"default directories: first program store config {first!r}, second {second!r}"
            case = {"defaults": [repr(first), repr(second)]}
            if outs[0]["keep"] != repr(("f", 7)) or outs[1]["keep"] != repr(("f", 7)) or outs[1]["load_after"] != repr(("f", 7)):
                raise Violation(f"{what}: wrong values {outs}", case)
            if outs[1]["load"] != repr(("f", 7)):
                raise Violation(f"{what}: the second program cannot load what the first one kept: {outs[1]['load']}", case)
            runs = len(open(mark).read()) if os.path.exists(mark) else 0
            if runs != 1:
                raise Violation(f"{what}: the kept function ran {runs} times (the two programs do not share one store)", case)
            ev.case(case, True, features=["default-directories"])


def shard(idx, n, tier, seed, count):
    ev = Ev()
    scratch = common.Scratch("vf-c16")
    opts = {"exclude": common.open_features(ID), "max_funcs": 5}
    try:
        if idx == n - 1:
            check_defaults(ev, scratch)
        v = common.hyp_drive(case_strategy(opts), lambda c: check_case(c, ev, scratch), seed * 1000 + 1600 + idx, count, ev)
    finally:
        scratch.clean()
    return ev, v


def run(tier, seed, scale=1.0):
    count = int((15 if tier == "quick" else 250) * scale)
    return common.run_shards(shard, 16, tier=tier, seed=seed, count=count)


def replay(case):
    if "defaults" in case:
        with common.Scratch("vf-c16") as sc:
            return check_defaults(Ev(), sc)
    check_case(case)
