"""C03 - signatures depend only on program content, never on the environment.

Generated: PipeLang programs x environment variants (hash seed, cwd, package location, store kind, debug and
graph-export options, prior in-process history).  Oracle: metamorphic - the path->signature map captured in
every variant equals the baseline's; plus a pinned corpus whose signatures must stay byte-identical.
"""
import json
import os
import subprocess
import sys

from .. import common
from ..common import Ev, Violation
from ..harness.session import Session
from ..pipelang import model as M
from ..pipelang import gen as G
from . import c01

ID = "C03"
LEVEL = "exploration"
RULE = (
    "Hypothesis-generated PipeLang programs; for each, the path->signature map of one evaluation is captured (through a "
    "dds.Store wrapper) in a baseline worker and in variants: fresh interpreters with PYTHONHASHSEED in {1,4242,random}, "
    "cwd=/, the package rendered in another directory, store kind {memory, local, noop, local+LRU}, dds_extra_debug on/off, "
    "dds_export_graph on/off, after k in {1,3} evaluations of other generated programs in the same process, and after "
    "evaluating an earlier version of the same program in the same process (edit + reload). All maps must be equal. The "
    "pinned corpus (corpus/C03/p*/, pinned on the unmodified tree) is re-evaluated and compared byte-for-byte. Non-trivial = "
    "program has >=2 kept nodes and >=1 tracked variable or argument; distinct by (program, variant)."
)
ASSUMPTIONS = [
    "corpus re-pins caused by deliberate fixes are listed in corpus/C03/REPINS.md",
    "graph export needs graphviz `dot` (present in this image); if missing the variant is skipped and counted",
]

VARIANTS = ["hashseed1", "hashseed4242", "cwd_root", "moved", "store_local", "store_noop", "store_lru", "debug_off",
            "debug_on", "export_graph", "after_others", "after_old_version"]


def case_strategy(opts):
    from hypothesis import strategies as st

    @st.composite
    def gen(draw):
        prog = draw(G.programs(opts))
        ents = G.entries(prog)
        root, style = draw(st.sampled_from(ents[-2:] if len(ents) > 1 else ents))
        others = [draw(G.programs({"max_funcs": 4, "exclude": opts.get("exclude", set())})) for _ in range(draw(st.sampled_from([1, 3])))]
        # an "earlier version": apply 1-2 edits backwards
        old = prog
        for _ in range(draw(st.integers(1, 2))):
            old = M.apply_edit(old, draw(G.edits(old, root, kinds=["setvar", "bump", "pad", "tcomment", "tcomment", "setlit", "reorder"], opts=opts)))
        variants = draw(st.lists(st.sampled_from(VARIANTS), min_size=3, max_size=5, unique=True))
        return {"prog": prog, "root": root, "style": style, "others": others, "old": old, "variants": variants}

    return gen()


def oneshot(root, pkg, store, evals, hashseed, cwd=None):
    env = dict(os.environ)
    env["PYTHONHASHSEED"] = str(hashseed)
    env["PYTHONPATH"] = os.pathsep.join([common.REPO, common.VERIF, os.path.join(common.VERIF, ".deps")])
    job = {"root": root, "accepted": [pkg], "store": store, "evals": evals, "cwd": cwd}
    p = subprocess.run([sys.executable, "-m", "vf.harness.oneshot"], input=json.dumps(job).encode(),
                       stdout=subprocess.PIPE, stderr=subprocess.PIPE, env=env, cwd=cwd or "/")
    if p.returncode != 0:
        raise common.HarnessError("oneshot failed: " + p.stderr.decode()[-1500:])
    return json.loads(p.stdout.decode())["results"]


def sig_map(res, what, case):
    if res["exc"] is not None:
        raise Violation(f"variant {what}: evaluation raised {res['exc']['type']}: {res['exc']['msg'][:300]}", case)
    return res["sigs"]


def with_pkg(prog, pkg):
    p = json.loads(json.dumps(prog))
    p["pkg"] = pkg
    return p


def check_case(case, ev=None, scratch=None):
    own = scratch is None
    scratch = scratch or common.Scratch("vf-c03")
    prog, root, style = case["prog"], case["root"], case["style"]
    f = prog["funcs"][root]
    ev_spec = {"module": M.modname(prog, f["mod"]), "func": f["name"], "style": style}
    try:
        base = Session(scratch, "memory")
        base.write(prog)
        base.start()
        b = sig_map(base.eval(root, style), "baseline", case)
        base.close()
        if not b and style != "eval":
            raise common.HarnessError("no signatures captured in baseline")
        for var in case["variants"]:
            if var.startswith("hashseed"):
                seed = var[len("hashseed"):]
                got = sig_map(oneshot(base.root, prog["pkg"], {"kind": "memory"}, [ev_spec], seed)[0], var, case)
            elif var == "cwd_root":
                got = sig_map(oneshot(base.root, prog["pkg"], {"kind": "memory"}, [ev_spec], 0, cwd="/")[0], var, case)
            elif var == "moved":
                s = Session(scratch, "memory")
                s.root = os.path.join(s.root, "deep", "er", "location")
                os.makedirs(s.root)
                s.write(prog)
                s.start()
                got = sig_map(s.eval(root, style), var, case)
                s.close()
            elif var in ("store_local", "store_noop", "store_lru"):
                kind = {"store_local": "local", "store_noop": "noop", "store_lru": "local-lru"}[var]
                s = Session(scratch, kind, 2 if kind == "local-lru" else None)
                s.root = base.root
                s.prog = prog
                s.start()
                got = sig_map(s.eval(root, style), var, case)
                s.close()
            elif var in ("debug_off", "debug_on", "export_graph"):
                s = Session(scratch, "memory")
                s.root = base.root
                s.prog = prog
                s.start()
                if var == "export_graph":
                    opts = {"dds_export_graph": os.path.join(scratch.sub(), "g.svg")}
                else:
                    opts = {"dds_extra_debug": var == "debug_on"}
                if var == "debug_off":
                    s.w.call("call", module="dds", func="set_option", args=["extra_debug", False])
                r = s.eval(root, "eval", opts=opts) if style == "eval" else None
                if r is None:
                    # options only exist on dds.eval: evaluate the data function through eval
                    r = s.eval(root, "eval", opts=opts)
                got = sig_map(r, var, case)
                s.close()
                if style != "eval":
                    # eval(root) does not keep the root itself: compare the common paths
                    b_cmp = {p: k for p, k in b.items() if p in got}
                    if got != b_cmp or (len(got) < len(b) - 1):
                        raise Violation(f"variant {var}: signatures differ from baseline: {diff(b_cmp, got)}", case)
                    continue
            elif var == "after_others":
                s = Session(scratch, "memory")
                for k, o in enumerate(case["others"]):
                    o2 = with_pkg(o, f"pq{k}")
                    s.write(o2)
                    if k == 0:
                        s.start()
                    s.w.call("call", module="dds", func="accept_module", args=[f"pq{k}"])
                    ents = G.entries(o2)
                    s.eval(ents[-1][0], ents[-1][1])
                s.write(prog)
                s.w.call("call", module="dds", func="accept_module", args=[prog["pkg"]])
                got = sig_map(s.eval(root, style), var, case)
                s.close()
            elif var == "after_old_version":
                s = Session(scratch, "memory")
                s.write(case["old"])
                s.start()
                s.eval(root, style)
                s.inproc_edit(prog)
                got = sig_map(s.eval(root, style), var, case)
                s.close()
            else:
                raise common.HarnessError(var)
            if got != b:
                raise Violation(f"variant {var}: signatures differ from baseline: {diff(b, got)}", case)
        if ev is not None:
            sites = M.kept_sites(prog, root)
            cl = M.closure(prog, root)
            nt = len(sites) >= 2 and (len(cl["v"]) >= 1 or any(s.get("args") for s in sites))
            for var in case["variants"]:
                ev.case({"variant": var, "program": c01.slim({"prog": prog, "store": None, "steps": []})["program"]}, nt,
                        features=["variant:" + var], key=[M.pkey(prog), var])
    finally:
        if own:
            scratch.clean()


def diff(a, b):
    out = {}
    for p in sorted(set(a) | set(b)):
        if a.get(p) != b.get(p):
            out[p] = (str(a.get(p))[:10], str(b.get(p))[:10])
    return out


def check_value_hashes(ev):
    """pinned table of value hashes (they feed every signature): byte-identical"""
    from dds.fun_args import dds_hash
    from ..jsonval import dec

    viols = []
    table = json.load(open(os.path.join(common.VERIF, "corpus", "C03", "values", "value_hashes.json")))
    for i, row in enumerate(table):
        v = dec(row["value"])
        try:
            h = dds_hash(v)
        except BaseException as e:  # noqa
            h = "ERR:" + type(e).__name__
        ev.case({"pinned_value": row["value"], "hash": h}, True, features=["pinned-value-hash"], key=["vh", i])
        if h != row["hash"]:
            viols.append(Violation(f"pinned value hash changed: dds_hash({v!r}) = {h[:16]}, pinned {row['hash'][:16]}", {"value_hash": i}))
    if not viols:
        # the same table in a fresh interpreter with another hash seed and another time zone
        from . import c05

        other = c05.other_process_hashes([row["value"] for row in table], hashseed=4242)
        for i, (row, o) in enumerate(zip(table, other)):
            if o[0] == "sig" and o[1] != row["hash"]:
                viols.append(Violation(f"pinned value hash differs in a process with another hash seed / time zone: dds_hash({dec(row['value'])!r}) = {o[1][:16]}, pinned {row['hash'][:16]}", {"value_hash": i}))
    return viols


def check_corpus(ev):
    """pinned corpus: byte-identical signatures"""
    cdir = os.path.join(common.VERIF, "corpus", "C03")
    viols = check_value_hashes(ev)
    for name in sorted(os.listdir(cdir)):
        d = os.path.join(cdir, name)
        if not os.path.isdir(d) or not os.path.exists(os.path.join(d, "expected.json")):
            continue
        for hashseed in ("0", "7"):
            env = dict(os.environ)
            env["PYTHONHASHSEED"] = hashseed
            env["PYTHONPATH"] = os.pathsep.join([common.REPO, common.VERIF, os.path.join(common.VERIF, ".deps")])
            p = subprocess.run([sys.executable, "-m", "vf.harness.corpus_run", d], stdout=subprocess.PIPE, stderr=subprocess.PIPE, env=env, cwd="/")
            if p.returncode != 0:
                viols.append(Violation(f"pinned corpus program {name} no longer evaluates: {p.stderr.decode()[-400:]}", {"corpus": name}))
                break
            got = json.loads(p.stdout.decode())
            exp = json.load(open(os.path.join(d, "expected.json")))
            for i, (g, e) in enumerate(zip(got["steps"], exp["steps"])):
                ev.case({"corpus": name, "step": i, "sigs": g["sigs"]}, True, features=["corpus"], key=["corpus", name, i, hashseed])
                if g["sigs"] != e["sigs"]:
                    viols.append(Violation(f"pinned corpus {name} step {i}: signatures changed: {diff(e['sigs'], g['sigs'])}", {"corpus": name}))
                elif g["value"] != e["value"]:
                    viols.append(Violation(f"pinned corpus {name} step {i}: value changed: {g['value'][:200]} vs {e['value'][:200]}", {"corpus": name}))
    return viols


# ---- kept lambdas (supported for direct keeps, see dds_tests/test_lambda.py) ---------------------------

LAM_SRC = """import dds
import vlog

VA = {va}


def ha():
    vlog.rec('ha')
    return ('ha', VA)


def hb():
    vlog.rec('hb')
    return ('hb', 2)


def fun_l():
    return dds.keep("/lam", lambda: ({expr},))
"""
LAM_ELEMS = {"ha()": lambda va: ("ha", va), "hb()": lambda va: ("hb", 2), "VA": lambda va: va, "7": lambda va: 7, "'s'": lambda va: "s"}


def lambda_strategy():
    from hypothesis import strategies as st

    expr = st.lists(st.sampled_from(sorted(LAM_ELEMS)), min_size=1, max_size=3)
    return st.fixed_dictionaries({"lam": st.just(True), "versions": st.lists(st.tuples(expr, st.integers(1, 3)), min_size=2, max_size=4),
                                  "multiline": st.booleans()})


def check_lambda(case, ev=None, scratch=None):
    """signature of a kept lambda after in-process edits == signature a fresh process assigns to the same source"""
    from ..harness import proc

    own = scratch is None
    scratch = scratch or common.Scratch("vf-c03")
    try:
        root = scratch.sub()
        mt = [1600000000]

        def src(ver):
            expr, va = ver
            sep = ",\n        " if case["multiline"] else ", "
            return {"pk/__init__.py": "", "pk/m0.py": LAM_SRC.format(va=va, expr=sep.join(expr))}

        def write_direct(files):
            mt[0] += 10
            for rel, content in files.items():
                pth = os.path.join(root, rel)
                os.makedirs(os.path.dirname(pth), exist_ok=True)
                open(pth, "w").write(content)
                os.utime(pth, (mt[0], mt[0]))

        write_direct(src(case["versions"][0]))
        w = proc.Worker()
        try:
            w.call("init", root=root, accepted=["pk"], store={"kind": "memory"})
            sig_inproc = []
            for i, ver in enumerate(case["versions"]):
                if i > 0:
                    mt[0] += 10
                    w.call("write_files", files=src(ver), reload=False, mtime=mt[0])
                    w.call("call", module="vf.harness.session", func="_reload_present", args=[["pk", "pk.m0"]])
                r = w.call("eval", module="pk.m0", func="fun_l", style="plain")
                if r["exc"] is not None:
                    raise Violation(f"kept lambda version {i} {ver} raised {r['exc']['type']}: {r['exc']['msg'][:300]}", case)
                want = tuple(LAM_ELEMS[e](ver[1]) for e in ver[0])
                if r["value"] != want:
                    raise Violation(f"kept lambda version {i} {ver} returned {r['value']!r}, plain execution gives {want!r} (history {case['versions'][:i]})", case)
                sig_inproc.append(r["sigs"].get("/lam"))
        finally:
            w.close()
        for i, ver in enumerate(case["versions"]):
            write_direct(src(ver))
            res = oneshot(root, "pk", {"kind": "memory"}, [{"module": "pk.m0", "func": "fun_l", "style": "plain"}], 0)[0]
            if res["exc"] is not None:
                raise Violation(f"kept lambda {ver} in a fresh process raised {res['exc']}", case)
            if res["sigs"].get("/lam") != sig_inproc[i]:
                raise Violation(
                    f"kept lambda {ver}: signature after the in-process history {case['versions'][:i]} is {str(sig_inproc[i])[:12]}, "
                    f"a fresh process assigns {str(res['sigs'].get('/lam'))[:12]} to the same source", case)
        if ev is not None:
            ev.case(case, True, features=["kept-lambda", "lambda-multiline" if case["multiline"] else "lambda-oneline"])
    finally:
        if own:
            scratch.clean()


# ---- a module that is first imported inside a function body ---------------------------------------------

LAZY_FILES = {
    "pk/__init__.py": "",
    "pk/m0.py": "import dds\nimport vlog\n\n\n@dds.data_function('/lz/out')\ndef f():\n    vlog.rec('f')\n    import lzmod{n}\n    return ('f', lzmod{n}.g())\n",
}
LAZY_MOD = "import vlog\n\nLZ = {lz}\n\n\ndef g():\n    vlog.rec('g')\n    return ('g', {ver}, LZ)\n"


def _preimport(name):
    import importlib

    importlib.import_module(name)
    return True


def check_lazy_import(case, ev=None, scratch=None):
    """the signature must not depend on whether a lazily imported accepted module is already loaded"""
    from ..harness import proc

    own = scratch is None
    scratch = scratch or common.Scratch("vf-c03")
    try:
        root = scratch.sub()
        n = case["n"]
        files = {k: v.format(n=n) for k, v in LAZY_FILES.items()}
        files[f"lzmod{n}.py"] = LAZY_MOD.format(lz=case["lz"], ver=case["ver"])
        for rel, content in files.items():
            pth = os.path.join(root, rel)
            os.makedirs(os.path.dirname(pth), exist_ok=True)
            open(pth, "w").write(content)
        sigs = {}
        for variant in ("fresh", "preimported"):
            w = proc.Worker()
            try:
                w.call("init", root=root, accepted=["pk", f"lzmod{n}"], store={"kind": "memory"})
                if variant == "preimported":
                    w.call("call", module="vf.props.c03", func="_preimport", args=[f"lzmod{n}"])
                for k in range(case["evals"]):
                    r = w.call("eval", module="pk.m0", func="f", style="direct")
                    if r["exc"] is not None:
                        raise Violation(f"lazy import ({variant}, evaluation {k}) raised {r['exc']['type']}: {r['exc']['msg'][:300]}", case)
                    if r["value"] != ("f", ("g", case["ver"], case["lz"])):
                        raise Violation(f"lazy import ({variant}, evaluation {k}) returned {r['value']!r}", case)
                    sigs[(variant, k)] = r["sigs"].get("/lz/out")
            finally:
                w.close()
        if len(set(sigs.values())) != 1:
            raise Violation(f"the signature of a function that imports an accepted module inside its body depends on the interpreter's import state: { {k: str(v)[:10] for k, v in sigs.items()} }", case)
        if ev is not None:
            ev.case(case, True, features=["lazy-import"])
    finally:
        if own:
            scratch.clean()


# ---- program shapes whose analysis meets unordered collections / names that also exist in the environment -----------------
ENV_SHAPES = {
    # one path reached twice with different call contexts (two candidate signatures for one path)
    "twice": ("""import dds


def g(x):
    return ('g', x)


def helper(x):
    return dds.keep('/es/p', g, x)


def second(x):
    return dds.keep('/es/q', g, x)


def f():
    a = helper(1)
    b = helper(2)
    c = second(3)
    d = helper(4)
    return ('f', a, b, c, d)
""", []),
    # a parameter / local re-used as the target of a comprehension and read again afterwards
    "comp_reuse": ("""import dds


def report(batch, rows):
    lines = [str(batch) for batch in batch]
    total = sum(rows for rows in rows)
    return (len(batch), lines, total, len(rows))


def f():
    return dds.keep('/es/p', report, [1, 2], [3])
""", ["batch", "rows", "lines", "total"]),
    # locals bound by for / with / nested comprehension
    "loop_names": ("""import dds


def table(items):
    out = {}
    for items_i, item in enumerate(items):
        out[item] = [cell for cell in (items_i, item)]
    return sorted(out.items()), item, items_i


def f():
    return dds.keep('/es/p', table, ['a', 'b'])
""", ["items", "item", "items_i", "cell", "out"]),
}


def env_shape_strategy():
    from hypothesis import strategies as st

    return st.fixed_dictionaries({"envshape": st.sampled_from(sorted(ENV_SHAPES)), "seeds": st.lists(st.sampled_from([0, 1, 2, 3, 5, 7, 11, 4242]), min_size=3, max_size=4, unique=True),
                                  "store": st.sampled_from(["memory", "local"])})


def check_env_shape(case, ev=None, scratch=None):
    """Fresh interpreters with different hash seeds, started from a plain working directory and from one that holds directories
    named like the local variables of the evaluated functions, must assign the same signatures."""
    own = scratch is None
    scratch = scratch or common.Scratch("vf-c03")
    try:
        root, plain, hostile = scratch.sub(), scratch.sub(), scratch.sub()
        src, names = ENV_SHAPES[case["envshape"]]
        for rel, content in {"pk/__init__.py": "", "pk/m0.py": src}.items():
            pth = os.path.join(root, rel)
            os.makedirs(os.path.dirname(pth), exist_ok=True)
            open(pth, "w").write(content)
        for n in names:
            os.makedirs(os.path.join(hostile, n))
        sigs = {}
        for i, hs in enumerate(case["seeds"]):
            cwd = hostile if (names and i % 2 == 1) else plain
            store = {"kind": case["store"], "dir": scratch.sub()}
            res = oneshot(root, "pk", store, [{"module": "pk.m0", "func": "f", "style": "eval"}], hs, cwd=cwd)[0]
            what = f"shape {case['envshape']}, PYTHONHASHSEED={hs}, cwd {'with directories named like the locals' if cwd is hostile else 'plain'}"
            sigs[what] = tuple(sorted(sig_map(res, what, case).items()))
        if len(set(sigs.values())) != 1:
            raise Violation("signatures differ between fresh interpreters: " + "; ".join(f"{k}: { {p: s[:10] for p, s in v} }" for k, v in sigs.items()), case)
        if ev is not None:
            ev.case(case, True, features=["env-shape:" + case["envshape"]])
    finally:
        if own:
            scratch.clean()


def shard(idx, n, tier, seed, count):
    ev = Ev()
    scratch = common.Scratch("vf-c03")
    opts = {"exclude": common.open_features(ID)}
    try:
        v = common.hyp_drive(case_strategy(opts), lambda c: check_case(c, ev, scratch), seed * 1000 + 300 + idx, count, ev)
        if v is None:
            v = common.hyp_drive(lambda_strategy(), lambda c: check_lambda(c, ev, scratch), seed * 1000 + 350 + idx, max(3, count // 2), ev)
        if v is None and idx < 4:
            from hypothesis import strategies as st

            lz = st.fixed_dictionaries({"lazy": st.just(True), "n": st.integers(0, 3), "lz": st.integers(0, 5), "ver": st.integers(0, 2), "evals": st.integers(2, 3)})
            v = common.hyp_drive(lz, lambda c: check_lazy_import(c, ev, scratch), seed * 1000 + 380 + idx, 3, ev)
        if v is None and idx >= 8:
            v = common.hyp_drive(env_shape_strategy(), lambda c: check_env_shape(c, ev, scratch), seed * 1000 + 390 + idx, 2 if tier == "quick" else 8, ev)
    finally:
        scratch.clean()
    return ev, v


def run(tier, seed, scale=1.0):
    ev = Ev()
    viols = check_corpus(ev)
    count = int((8 if tier == "quick" else 120) * scale)
    e2, v2, err2 = common.run_shards(shard, 16, tier=tier, seed=seed, count=count)
    ev.merge(e2)
    return ev, viols + v2, err2


def replay(case):
    if case.get("lazy"):
        check_lazy_import(case)
    elif "envshape" in case:
        check_env_shape(case)
    elif case.get("lam"):
        check_lambda(case)
    elif "value_hash" in case:
        v = [x for x in check_value_hashes(Ev()) if x.case.get("value_hash") == case["value_hash"]]
        if v:
            raise v[0]
    elif "corpus" in case:
        v = [x for x in check_corpus(Ev()) if x.case.get("corpus") == case["corpus"]]
        if v:
            raise v[0]
    else:
        check_case(case)
