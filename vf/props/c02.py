"""C02 - nothing is recomputed unless something it depends on changed.

Generated: PipeLang programs x (populate) -> (one step of a named class) -> EVAL.  Oracle: the execution
log of the last evaluation is within the log the dependency cone allows (DESIGN.md 4.1/4.2), and every
kept node that must not re-execute keeps its signature.
"""
from .. import common
from ..common import Ev, Violation
from ..harness.session import Session
from ..pipelang import model as M
from ..pipelang import gen as G
from . import c01

ID = "C02"
LEVEL = "exploration"
RULE = (
    "Hypothesis-generated PipeLang programs x store {memory, local, local+LRU} x one step class: no-op re-evaluation, "
    "restart, edit-then-revert, module rename (code copied to another accepted module), entry-style switch (dds.eval <-> "
    "direct data-function call), a single edit E1 variable / E2 body or comment / E3 literal at a generated target, "
    "E4 unrelated definition, E5 reordering, E6 non-accepted code (also value-changing); one case in twelve plants two kept "
    "functions sharing a plain helper (one run-time argument, one defaulted parameter) and edits what only the first reads. After the step the pipeline is "
    "evaluated and the execution log (recorded through a non-accepted module) is compared with the log allowed by the "
    "dependency cone: kept nodes with zero/literal arguments may run only if the edit target is in their static closure "
    "(or sits in the edited function); run-time-argument nodes are conservatively allowed for accepted-code edits and "
    "forbidden for steps outside every cone. Signatures of forbidden nodes must be unchanged. Non-trivial = >=2 kept nodes "
    "reachable of which >=1 is forbidden to run and the step is not empty; distinct by (program, step)."
)
ASSUMPTIONS = [
    "cone item 7 (call-site context of run-time-argument keeps) is over-approximated by the closure of the nearest enclosing function whose own arguments are known statically (data function, literal keep, call without explicit arguments, the evaluated root); when no such function can be determined the node is not asserted idle",
    "the noop store is excluded (it never serves anything)",
]

STORES = [("memory", None), ("local", None), ("local-lru", 2)]
STEP_KINDS = ["noop", "restart", "revert", "rename", "switch", "edit", "edit", "edit", "outside", "outside"]


def case_strategy(opts):
    from hypothesis import strategies as st

    @st.composite
    def gen(draw):
        focus = draw(st.integers(0, 11)) == 0
        prog = draw(G.programs(dict(opts, force_motif=2) if focus else opts))
        ents = G.entries(prog)
        root, style = draw(st.sampled_from(ents[-2:] if len(ents) > 1 else ents))
        kind, cache = draw(st.sampled_from(STORES))
        step = draw(st.sampled_from(STEP_KINDS))
        if focus:
            # planted shape (two kept functions sharing a helper): edit what only the first of them reads
            root, style, step = len(prog["funcs"]) - 1, "eval", draw(st.sampled_from(["edit", "revert"]))
        if step == "restart" and kind == "memory":
            step = "noop"
        case = {"prog": prog, "store": [kind, cache], "root": root, "style": style, "step": step}
        if focus:
            vi = prog["funcs"][1]["body"][0][1]
            cur = G.canon_key(G.dec(prog["vars"][vi]["val"]))
            case["edit"] = ["setvar", vi, G.enc(draw(st.sampled_from([v for v in G._var_pool(opts) if G.canon_key(v) != cur])))]
        elif step in ("edit", "revert"):
            case["edit"] = draw(G.edits(prog, root, kinds=["setvar", "bump", "pad", "setlit", "bumpcls", "indent"], opts=opts))
        elif step == "outside":
            case["edit"] = draw(G.edits(prog, root, kinds=["unrelated", "reorder", "ext_pad", "ext_val", "ext_ver"], opts=opts))
        elif step == "rename":
            mi = draw(st.integers(0, len(prog["mods"]) - 1))
            case["edit"] = ["rename_mod", mi, prog["mods"][mi] + "copy"]
        case["inproc"] = draw(st.booleans()) or kind == "memory"
        return case

    return gen()


def changed_targets(before, after):
    """Accepted-code facts whose content differs between two program states: own text of functions and
    classes (as rendered, i.e. as inspect.getsource returns it) and values of tracked variables."""
    t = set()
    for i in range(len(after["funcs"])):
        if i >= len(before["funcs"]) or M.render_func(before, i) != M.render_func(after, i):
            t.add(("f", i))
    for i in range(len(after.get("classes", []))):
        if i >= len(before.get("classes", [])) or M.render_class(before, i) != M.render_class(after, i):
            t.add(("c", i))
    for i, v in enumerate(after["vars"]):
        if i >= len(before["vars"]) or before["vars"][i]["val"] != v["val"]:
            t.add(("v", i))
    return t


def allowed(prog_before, prog_after, root, step, edit):
    """predicate path -> may the kept node at path run its body in the final evaluation?"""
    sites = {s["path"]: s for s in M.kept_sites(prog_after, root)}
    targets = changed_targets(prog_before, prog_after)
    if not targets:
        return (lambda p: False), sites
    in_edited_fn = set()
    for (tk, ti) in targets:
        if tk == "f":
            in_edited_fn |= set(M.keep_sites_in(prog_after, ti))

    def may(p):
        s = sites.get(p)
        if s is None:
            return True
        if not s["ctxfree"]:
            # run-time arguments: the signature also covers the call-site context (cone item 7). The context is
            # bounded by the closure of the nearest enclosing function whose own arguments are known statically.
            top = M.context_owner(prog_after, root, p)
            if top is None:
                return True
            cl_top = M.closure(prog_after, top)
            if any(ti in cl_top[tk] for (tk, ti) in targets) or p in in_edited_fn:
                return True
            # the (literal) arguments bound to that function are part of its input: they sit in the text of its caller
            # (only a change of the referencing statement itself counts, not any edit of the caller)
            after = [st for (_ck, _ci, st) in M.references(prog_after).get(top, [])]
            before = [st for (_ck, _ci, st) in M.references(prog_before).get(top, [])]
            return after != before
        cl = M.closure(prog_after, s["callee"])
        if any(ti in cl[tk] for (tk, ti) in targets):
            return True
        if p in in_edited_fn:
            return True
        return False

    return may, sites


def check_case(case, ev=None, scratch=None):
    own = scratch is None
    scratch = scratch or common.Scratch("vf-c02")
    kind, cache = case["store"]
    sess = Session(scratch, kind, cache)
    try:
        prog = case["prog"]
        root, style, step = case["root"], case["style"], case["step"]
        sess.write(prog)
        sess.start()
        r0 = sess.eval(root, style)
        if r0["exc"] is not None:
            raise Violation(f"populate EVAL raised {r0['exc']['type']}: {r0['exc']['msg'][:300]}", case)
        sigs0 = r0["sigs"]
        after = prog
        style2 = style
        if step == "noop":
            pass
        elif step == "restart":
            sess.restart()
        elif step == "switch":
            f = prog["funcs"][root]
            style2 = ("direct" if style == "eval" else "eval") if M.is_data(f) else "eval"
        else:
            after = M.apply_edit(prog, case["edit"])
            if step == "revert":
                apply_prog(sess, after, case["inproc"])
                r1 = sess.eval(root, style)
                if r1["exc"] is not None:
                    raise Violation(f"EVAL after edit raised {r1['exc']['type']}: {r1['exc']['msg'][:300]}", case)
                after = prog
            apply_prog(sess, after, case["inproc"])
        res = sess.eval(root, style2)
        if res["exc"] is not None:
            raise Violation(f"final EVAL ({step}) raised {res['exc']['type']}: {res['exc']['msg'][:300]}\n{res['exc'].get('tb_tail','')[-500:]}", case)
        exp, _ = M.expected_value(after, root)
        # value-changing edits of NON-accepted code are untracked by design: the served value is the old one
        untracked_value_change = "edit" in case and case["edit"][0] in ("ext_val", "ext_ver")
        if not untracked_value_change and res["value"] != exp:
            raise Violation(f"final EVAL ({step}) returned {res['value']!r}, plain execution gives {exp!r}", case)
        may, sites = allowed(prog, after, root, step, case.get("edit"))
        upper = set(M.sim_log(after, root, may))
        extra = [n for n in res["log"] if n not in upper]
        if extra:
            raise Violation(
                f"step '{step}' {case.get('edit')}: functions {sorted(set(extra))} were executed although nothing they depend on changed "
                f"(log={res['log']}, allowed={sorted(upper)}); store={case['store']} root=f{root} style={style}->{style2}",
                case,
            )
        # signatures of nodes that must not run are unchanged
        forbidden = [p for p in sites if not may(p)]
        for p in forbidden:
            if p in sigs0 and p in res["sigs"] and sigs0[p] != res["sigs"][p]:
                raise Violation(
                    f"step '{step}' {case.get('edit')}: kept path {p} changed signature {sigs0[p][:10]} -> {res['sigs'][p][:10]} although outside the cone", case
                )
        if ev is not None:
            nt = len(sites) >= 2 and len(forbidden) >= 1 and step != "noop"
            feats = ["step:" + step, "store:" + kind] + (["edit:" + case["edit"][0]] if "edit" in case else [])
            feats += ["has-runtime-node"] if any(not s["ctxfree"] for s in sites.values()) else []
            feats += ["forbidden>=1"] if forbidden else []
            ev.case(c01.slim({"prog": prog, "store": case["store"], "steps": [step, case.get("edit")]}), nt, features=feats,
                    key=[M.pkey(prog), step, case.get("edit"), case["store"], root, style])
    finally:
        sess.close()
        if own:
            scratch.clean()


def apply_prog(sess, prog, inproc):
    if inproc:
        sess.inproc_edit(prog)
    else:
        sess.write(prog)
        sess.restart()


def shard(idx, n, tier, seed, count):
    ev = Ev()
    scratch = common.Scratch("vf-c02")
    opts = {"exclude": common.open_features(ID), "nested_args": True}
    try:
        v = common.hyp_drive(case_strategy(opts), lambda c: check_case(c, ev, scratch), seed * 1000 + 200 + idx, count, ev)
    finally:
        scratch.clean()
    return ev, v


def run(tier, seed, scale=1.0):
    count = int((50 if tier == "quick" else 800) * scale)
    return common.run_shards(shard, 16, tier=tier, seed=seed, count=count)


def replay(case):
    check_case(case)
