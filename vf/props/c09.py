"""C09 - dds.load always sees the latest kept value and invalidates its readers.

Generated: pipelines with one producer of a path and a load placed anywhere in the call tree x order of
producer and load (earlier evaluation / earlier in the same evaluation / later in the same evaluation /
never) x edits of the producer's dependencies x fresh and populated stores.
Oracle: reference interpreter with program-order load semantics; reader re-executes iff the served value
is new to it; read-before-produce raises a DDSException.
"""
import json

from .. import common
from ..common import Ev, Violation
from ..harness.session import Session
from ..jsonval import enc
from ..pipelang import model as M
from . import c01

ID = "C09"
LEVEL = "exploration"
RULE = (
    "Hypothesis-generated pipelines: producer in {data function, dds.keep call site, one function kept under two paths of which readers load both}, load placed in {root, helper, helper "
    "of helper, kept function, helper under a kept function, argument list of a plain call, loaded value handed to a kept function as run-time argument}, order in {producer in an earlier evaluation, earlier in the same "
    "evaluation, later in the same evaluation, never produced}, padded with unrelated statements; histories: evaluate, edit "
    "the producer's tracked variable or body (rewriting and reloading the module, or assigning the variable in the running process), move the producer before / after the load or out of the evaluated function "
    "(in-process or across a restart), optionally re-evaluate the producer, evaluate again, no-op re-evaluation; two templates: "
    "keep first in the source but executed after the load, a reader whose module imports dds only inside the function, and an "
    "uninstrumented pipeline (no recording calls in the functions; variable assigned in the running process or module reloaded); stores "
    "{memory, local, local+LRU}. Oracles: value == reference interpreter (load = latest value kept in program order, else the "
    "committed one); a kept reader runs iff the value served at the path is new to it; read-before-produce and never-produced "
    "raise a DDSException. Non-trivial = the served value changed at least once during the history, or the load precedes its "
    "producer; distinct by (program, history, store)."
)
ASSUMPTIONS = [
    "a load of a path that was never produced must fail with a DDSException of any code",
    "NoOp store excluded (documented: load does not work with it)",
]

PLACEMENTS = ["root", "helper", "helper2", "kept", "kept_helper", "inline_arg", "kept_inline_arg", "kept_loaded_arg", "kept_loaded_arg_inline"]
ORDERS = ["earlier_eval", "same_before", "same_before", "same_after", "same_after_populated", "never"]
STORES = [("memory", None), ("local", None), ("local-lru", 2)]


def build(placement, order, producer, noise, multi, kwarg=False, pathvar=False):
    """Returns (prog, root index, producer entry index)."""
    funcs = []
    vars_ = [{"name": "VS", "mod": 0, "val": 1}, {"name": "VX", "mod": 0, "val": "x"}]

    def add(name, body, data=None, params=None):
        funcs.append({"name": name, "mod": 0, "params": params or [], "ver": 0, "pad": 0, "data": data, "body": body})
        return len(funcs) - 1

    # producer
    if producer == "data":
        p_entry = add("prod", [["var", 0]], data="/src/v")
        call_prod = ["call", p_entry, "bare", []]
    else:
        pbody = add("prod_body", [["var", 0]])
        # keepcall2: the same function is kept under two paths in one evaluation (the loaded path is the second one)
        p_entry = add("mk", ([["keep", "/src/u", pbody, "bare", []]] if producer == "keepcall2" else []) + [["keep", "/src/v", pbody, "bare", []]])
        call_prod = ["call", p_entry, "bare", []]
    unrelated = add("other", [["var", 1], ["ext", 0]], data="/other")
    ld = ["load", "/src/v", "pathvar"] if pathvar else ["load", "/src/v"]   # pathvar: dds.load(<module-level pathlib.Path constant>)
    # with two paths serving the same blob, readers that have a body of their own load both
    ld2 = [["load", "/src/u"]] if producer == "keepcall2" else []
    # reader chain
    if placement == "root":
        read_stmt = ld
        reader_kept = None
    elif placement == "helper":
        h = add("h", [["ext", 1], ld] + ld2)
        read_stmt = ["call", h, "bare", []]
        reader_kept = None
    elif placement == "helper2":
        h = add("h", [ld] + ld2)
        h2 = add("h2", [["call", h, "bare", []], ["ext", 2]])
        read_stmt = ["call", h2, "bare", []]
        reader_kept = None
    elif placement == "inline_arg":
        fmt = add("fmt", [["ext", 1]], params=[["x", M.NO]])
        read_stmt = ["call", fmt, "bare", [["iload", "/src/v", "kw" if kwarg else "pos"]]]
        reader_kept = None
    elif placement == "kept_inline_arg":
        fmt = add("fmt", [["ext", 1]], params=[["x", M.NO]])
        r = add("rd", [["var", 1], ["call", fmt, "bare", [["iload", "/src/v", "kw" if kwarg else "pos"]]]], data="/rd")
        read_stmt = ["call", r, "bare", []]
        reader_kept = "rd"
    elif placement in ("kept_loaded_arg", "kept_loaded_arg_inline"):
        # the loaded value is handed to a kept function as a run-time argument (the kept function itself does not load)
        r = add("rd", [["var", 1]], params=[["x", M.NO]])
        if placement == "kept_loaded_arg":
            # (multi: the same path is loaded twice before the kept call)
            hb = [ld] + ([ld] if multi else []) + [["keep", "/rd", r, "bare", [["loc", 0, "kw" if kwarg else "pos"]]]]
        else:
            hb = [["keep", "/rd", r, "bare", [["iload", "/src/v", "kw" if kwarg else "pos"]]]]
        h = add("h", hb)
        read_stmt = ["call", h, "bare", []]
        reader_kept = "rd"
    elif placement == "kept":
        r = add("rd", [["var", 1], ld] + ld2, data="/rd")
        read_stmt = ["call", r, "bare", []]
        reader_kept = "rd"
    else:
        h = add("h", [ld] + ld2)
        r = add("rd", [["call", h, "bare", []]], data="/rd")
        read_stmt = ["call", r, "bare", []]
        reader_kept = "rd"
    body = []
    if noise & 1:
        body.append(["call", unrelated, "bare", []])
    if order == "same_before":
        body += [call_prod, read_stmt]
    elif order in ("same_after", "same_after_populated"):
        body += [read_stmt, call_prod]
    else:
        body += [read_stmt]
    if noise & 2:
        body.append(["ext", 0])
    if multi and order in ("earlier_eval", "same_before"):
        body.append(read_stmt if placement in ("kept", "kept_helper") else ld)
    root = add("root", body)
    prog = {"pkg": M.PKG, "mods": ["m0"], "vars": vars_, "funcs": funcs, "classes": [],
            "ext": {"ev": 1, "ver": 0, "pad": 0}, "layout": {}}
    return prog, root, p_entry, reader_kept


def case_strategy():
    from hypothesis import strategies as st

    @st.composite
    def gen(draw):
        placement = draw(st.sampled_from(PLACEMENTS))
        order = draw(st.sampled_from(ORDERS))
        producer = draw(st.sampled_from(["data", "keepcall", "keepcall2"]))
        noise = draw(st.integers(0, 3))
        multi = draw(st.booleans())
        kind, cache = draw(st.sampled_from(STORES))
        steps = []
        n = draw(st.integers(1, 4))
        for _ in range(n):
            c = draw(st.sampled_from(["edit_prod", "edit_prod", "edit_body", "noop", "restart", "eval_prod", "switch", "live_prod"]))
            if c == "switch":
                # the code of the evaluated function is restructured (the producer moves before / after the load, or away)
                steps.append(["switch", draw(st.sampled_from(["earlier_eval", "same_before", "same_after"]))])
                if draw(st.booleans()):
                    steps.append(["setvar", draw(st.integers(2, 4))])
            elif c == "live_prod":
                # the producer's tracked variable is assigned in the running process: no module is reloaded, every function object stays
                steps.append(["setvar_live", draw(st.integers(5, 8))])
            elif c == "edit_prod":
                steps.append(["setvar", draw(st.integers(2, 4))])
            elif c == "edit_body":
                steps.append(["bump_prod"])
            elif c == "restart" and kind == "memory":
                steps.append(["noop"])
            else:
                steps.append([c])
            if order == "earlier_eval" and c in ("edit_prod", "edit_body", "live_prod") and draw(st.integers(0, 3)):
                steps.append(["eval_prod"])
            steps.append(["eval_root"])
        return {"placement": placement, "order": order, "producer": producer, "noise": noise, "multi": multi,
                "store": [kind, cache], "steps": steps, "inproc": draw(st.booleans()), "kwarg": draw(st.booleans()), "pathvar": draw(st.integers(0, 2)) == 0}

    return gen()


def check_case(case, ev=None, scratch=None):
    own = scratch is None
    scratch = scratch or common.Scratch("vf-c09")
    kind, cache = case["store"]
    sess = Session(scratch, kind, cache)
    prog, root, p_entry, reader_kept = build(case["placement"], case["order"], case["producer"], case["noise"], case["multi"], case.get("kwarg", False), case.get("pathvar", False))
    order = case["order"]
    applied = []
    committed = {}
    seen_by_reader = set()
    stats = {"changes": 0, "reader_hits": 0, "reader_runs": 0}

    cur_order = [order]

    def fail(msg):
        raise Violation(f"[{case['placement']}/{order}->{cur_order[0]}/{case['producer']}/{kind}] {msg}; steps={case['steps']}", case)

    def eval_prod(cur):
        res = sess.eval(p_entry, "direct" if M.is_data(cur["funcs"][p_entry]) else "eval")
        if res["exc"] is not None:
            fail(f"evaluating the producer raised {res['exc']['type']}: {res['exc']['msg'][:200]}")
        exp, it = M.expected_value(cur, p_entry, committed=committed)
        if res["value"] != exp:
            fail(f"producer returned {res['value']!r}, expected {exp!r}")
        committed.update(it.kept)

    def eval_root(cur, si):
        order = cur_order[0]
        res = sess.eval(root, "eval")
        if order in ("same_after", "same_after_populated", "never") and not (order == "never" and "/src/v" in committed):
            if res["exc"] is None:
                fail(f"step {si}: reading /src/v before it is produced was not rejected: returned {res['value']!r}")
            if not res["exc"]["is_dds"]:
                fail(f"step {si}: reading /src/v before it is produced raised {res['exc']['type']} ({res['exc']['msg'][:150]}) instead of a DDS error")
            return
        if res["exc"] is not None:
            fail(f"step {si}: evaluation raised {res['exc']['type']}: {res['exc']['msg'][:300]}\n{res['exc'].get('tb_tail','')[-400:]}")
        exp, it = M.expected_value(cur, root, committed=committed)
        if res["value"] != exp:
            fail(f"step {si}: evaluation returned {res['value']!r} but program-order semantics give {exp!r}")
        src_now = it.kept.get("/src/v", committed.get("/src/v"))
        if reader_kept is not None:
            key = json.dumps(enc_any(src_now), sort_keys=True) + "|" + str(cur["funcs"][[f["name"] for f in cur["funcs"]].index("rd")].get("ver", 0))
            ran = reader_kept in res["log"]
            if key in seen_by_reader and ran:
                fail(f"step {si}: the kept reader was re-executed although /src/v serves the same result as before (log={res['log']})")
            if key not in seen_by_reader and not ran:
                fail(f"step {si}: the kept reader was NOT re-executed although /src/v serves a new result (log={res['log']})")
            if ran:
                stats["reader_runs"] += 1
            else:
                stats["reader_hits"] += 1
            seen_by_reader.add(key)
        committed.update(it.kept)

    try:
        cur = prog
        sess.write(cur)
        sess.start()
        if order in ("earlier_eval", "same_after_populated"):
            eval_prod(cur)
        last_src = None
        eval_root(cur, -1)
        for si, stp in enumerate(case["steps"]):
            k = stp[0]
            if k == "setvar_live":
                applied.append(["setvar", 0, stp[1] + si * 10])
                cur = M.apply_edit(cur, applied[-1])
                stats["changes"] += 1
                stats["live"] = stats.get("live", 0) + 1
                sess.write(cur)   # the file follows; nothing is reloaded
                v = cur["vars"][0]
                sess.w.call("call", module="vf.harness.worker", func="cmd_setvar", args=[M.modname(cur, v["mod"]), v["name"], M.dec(v["val"])])
            elif k in ("setvar", "bump_prod", "switch"):
                if k == "setvar":
                    applied.append(["setvar", 0, stp[1] + si * 10])
                    cur = M.apply_edit(cur, applied[-1])
                elif k == "bump_prod":
                    pb = [i for i, f in enumerate(cur["funcs"]) if f["name"] in ("prod", "prod_body")][0]
                    applied.append(["bump", pb])
                    cur = M.apply_edit(cur, applied[-1])
                else:
                    newo = stp[1]
                    if newo == "earlier_eval" and "/src/v" not in committed:
                        newo = "never"
                    if newo == cur_order[0]:
                        continue
                    cur_order[0] = newo
                    cur = build(case["placement"], newo, case["producer"], case["noise"], case["multi"], case.get("kwarg", False), case.get("pathvar", False))[0]
                    for e in applied:
                        cur = M.apply_edit(cur, e)
                    stats["switches"] = stats.get("switches", 0) + 1
                stats["changes"] += 1
                if case["inproc"] or kind == "memory":
                    sess.inproc_edit(cur)
                else:
                    sess.write(cur)
                    sess.restart()
            elif k == "eval_prod":
                if cur_order[0] in ("same_after", "never"):
                    continue
                eval_prod(cur)
            elif k == "restart":
                sess.restart()
            elif k == "eval_root":
                eval_root(cur, si)
            elif k == "noop":
                pass
        if ev is not None:
            nt = stats["changes"] >= 1 or order.startswith("same_after")
            ev.case({k: case[k] for k in case}, nt,
                    features=["place:" + case["placement"], "order:" + order, "prod:" + case["producer"], "store:" + kind] + (["load-of-a-Path-constant"] if case.get("pathvar") else [])
                    + (["restructured-in-process" if (case["inproc"] or kind == "memory") else "restructured"] if stats.get("switches") else [])
                    + (["variable-assigned-in-process"] if stats.get("live") else [])
                    + (["reader-cache-hit"] if stats["reader_hits"] else []) + (["reader-rerun"] if stats["reader_runs"] > 1 else []))
    finally:
        sess.close()
        if own:
            scratch.clean()


# ---- dynamic order: the keep comes first in the source but runs after the load -------------------------

DYN_SRC = """import dds
import vlog

VS = {vs}


{deco}def prod():
    vlog.rec('prod')
    return ('prod', {ver}, VS)


def mk():
    return {produce}


def root():
    vlog.rec('root')
    out = dict()
    for _i in (0, 1):
        if _i == 1:
            out['k'] = {produce}
        if _i == 0:
            out['l'] = dds.load('/src/v')
    return (out['l'], out['k'])
"""


def dyn_files(producer, vs, ver):
    deco = "@dds.data_function('/src/v')\n" if producer == "data" else ""
    produce = "prod()" if producer == "data" else "dds.keep('/src/v', prod)"
    return {"pk/__init__.py": "", "pk/m0.py": DYN_SRC.format(vs=vs, ver=ver, deco=deco, produce=produce)}


def dyn_strategy():
    from hypothesis import strategies as st

    return st.fixed_dictionaries({
        "dyn": st.just(True),
        "producer": st.sampled_from(["data", "keepcall"]),
        "store": st.sampled_from(STORES).map(list),
        "populate": st.booleans(),
        "edits": st.lists(st.sampled_from(["vs", "ver", "none", "revert"]), min_size=1, max_size=3),
    })


def check_dynamic(case, ev=None, scratch=None):
    """The load executes before the keep although the keep is first in the source: the result is a DDS error
    or the value produced by THIS evaluation, never the content committed by an earlier one."""
    from ..harness import proc
    import os

    own = scratch is None
    scratch = scratch or common.Scratch("vf-c09")
    root_dir = scratch.sub()
    store_dir = scratch.sub()
    w = proc.Worker()
    try:
        vs, ver = 1, 0
        hist = [(vs, ver)]
        mt = [1600000000]

        def write(first=False):
            mt[0] += 10
            files = dyn_files(case["producer"], vs, ver)
            if first:
                for rel, content in files.items():
                    pth = os.path.join(root_dir, rel)
                    os.makedirs(os.path.dirname(pth), exist_ok=True)
                    open(pth, "w").write(content)
                    os.utime(pth, (mt[0], mt[0]))
            else:
                w.call("write_files", files=files, reload=False, mtime=mt[0])
                w.call("call", module="vf.harness.session", func="_reload_present", args=[["pk", "pk.m0"]])

        write(first=True)
        w.call("init", root=root_dir, accepted=["pk"], store={"kind": case["store"][0], "dir": store_dir, "cache": case["store"][1]})
        committed = None
        if case["populate"]:
            r = w.call("eval", module="pk.m0", func="mk", style="eval")
            if r["exc"] is not None:
                raise Violation(f"[dynamic order] populate raised {r['exc']['type']}: {r['exc']['msg'][:200]}", case)
            committed = ("prod", ver, vs)
        outcomes = []
        for ed in case["edits"]:
            if ed == "vs":
                vs += 1
            elif ed == "ver":
                ver += 1
            elif ed == "revert" and len(hist) > 1:
                vs, ver = hist[-2]
            hist.append((vs, ver))
            write()
            r = w.call("eval", module="pk.m0", func="root", style="eval")
            now = ("prod", ver, vs)
            if r["exc"] is not None:
                if not r["exc"]["is_dds"]:
                    raise Violation(f"[dynamic order/{case['producer']}/{case['store'][0]}] load executed before its producer raised {r['exc']['type']}: {r['exc']['msg'][:200]} instead of a DDS error; edits={case['edits']}", case)
                outcomes.append("rejected")
            else:
                loaded, kept = r["value"]
                if kept != now:
                    raise Violation(f"[dynamic order] keep returned {kept!r}, expected {now!r}", case)
                if loaded != now:
                    raise Violation(
                        f"[dynamic order/{case['producer']}/{case['store'][0]}] dds.load executed before the producer silently returned the previous content {loaded!r}; this evaluation keeps {now!r}; edits={case['edits']}", case)
                outcomes.append("value")
                committed = now
        if ev is not None:
            ev.case(case, True, features=["dynamic-order", "dyn:" + "+".join(sorted(set(outcomes)))])
    finally:
        w.close()
        if own:
            scratch.clean()


# ---- load behind a function-local import of dds (module without a top-level `import dds`) ---------------

LOC_RD = """import vlog


def h():
{imp_h}    return {load}('/src/v')


def reader():
{imp_r}    vlog.rec('rd')
    return ('rd', {ver}, {expr})
"""

LOC_M0 = """import dds
import vlog
from .rd import reader

VS = {vs}


@dds.data_function('/src/v')
def prod():
    vlog.rec('prod')
    return ('prod', VS)


def mk():
    return prod()


def root():
    vlog.rec('root')
{call_prod}    return dds.keep('/rd', reader)
"""

LOC_FORMS = {"import": ("    import dds\n", "dds.load"), "import_as": ("    import dds as dd\n", "dd.load"),
             "from_import": ("    from dds import load\n", "load"), "from_import_as": ("    from dds import load as ld\n", "ld")}


def loc_files(case, vs, ver):
    imp, load = LOC_FORMS[case["form"]]
    helper = case["where"] == "helper"
    rd = LOC_RD.format(imp_h=imp, load=load, imp_r="" if helper else imp, ver=ver, expr="h()" if helper else f"{load}('/src/v')")
    m0 = LOC_M0.format(vs=vs, call_prod="    prod()\n" if case["order"] == "same_before" else "")
    return {"pk/__init__.py": "", "pk/rd.py": rd, "pk/m0.py": m0}


def loc_strategy(exclude):
    from hypothesis import strategies as st

    forms = ["import"] + ([] if "local-aliased-dds-import" in exclude else ["import_as", "from_import", "from_import_as"])
    return st.fixed_dictionaries({
        "loc": st.just(True),
        "form": st.sampled_from(forms),
        "where": st.sampled_from(["reader", "helper"]),
        "order": st.sampled_from(["same_before", "earlier_eval"]),
        "store": st.sampled_from(STORES).map(list),
        "edits": st.lists(st.sampled_from(["vs", "vs", "ver", "none", "revert"]), min_size=1, max_size=4),
    })


def check_local_import(case, ev=None, scratch=None):
    """The reader lives in a module that never imports dds at module level; dds is imported inside the function that loads."""
    from ..harness import proc
    import os

    own = scratch is None
    scratch = scratch or common.Scratch("vf-c09")
    root_dir = scratch.sub()
    store_dir = scratch.sub()
    w = proc.Worker()
    tag = f"[load behind a function-local `{LOC_FORMS[case['form']][0].strip()}` in the {case['where']}/{case['order']}/{case['store'][0]}]"
    try:
        vs, ver = 1, 0
        hist = [(vs, ver)]
        mt = [1600000000]

        def write(first=False):
            mt[0] += 10
            files = loc_files(case, vs, ver)
            if first:
                for rel, content in files.items():
                    pth = os.path.join(root_dir, rel)
                    os.makedirs(os.path.dirname(pth), exist_ok=True)
                    open(pth, "w").write(content)
                    os.utime(pth, (mt[0], mt[0]))
            else:
                w.call("write_files", files=files, reload=False, mtime=mt[0])
                w.call("call", module="vf.harness.session", func="_reload_present", args=[["pk", "pk.rd", "pk.m0"]])

        def evaluate(step):
            if case["order"] == "earlier_eval":
                r = w.call("eval", module="pk.m0", func="mk", style="eval")
                if r["exc"] is not None:
                    raise Violation(f"{tag} evaluating the producer raised {r['exc']['type']}: {r['exc']['msg'][:200]}", case)
            r = w.call("eval", module="pk.m0", func="root", style="eval")
            if r["exc"] is not None:
                raise Violation(f"{tag} step {step}: evaluation raised {r['exc']['type']}: {r['exc']['msg'][:300]}", case)
            want = ("rd", ver, ("prod", vs))
            if r["value"] != want:
                raise Violation(f"{tag} step {step}: the kept reader returned {r['value']!r}, /src/v now serves {('prod', vs)!r} (expected {want!r}); edits={case['edits']}", case)
            ran = "rd" in r["log"]
            new = (vs, ver) not in seen
            if ran and not new:
                raise Violation(f"{tag} step {step}: the kept reader was re-executed although /src/v is unchanged (log={r['log']})", case)
            if new and not ran:
                raise Violation(f"{tag} step {step}: the kept reader was not re-executed although /src/v serves a new result", case)
            seen.add((vs, ver))

        seen = set()
        write(first=True)
        w.call("init", root=root_dir, accepted=["pk"], store={"kind": case["store"][0], "dir": store_dir, "cache": case["store"][1]})
        evaluate(-1)
        for si, ed in enumerate(case["edits"]):
            if ed == "vs":
                vs = max(h[0] for h in hist) + 1
            elif ed == "ver":
                ver = max(h[1] for h in hist) + 1
            elif ed == "revert" and len(hist) > 1:
                vs, ver = hist[-2]
            hist.append((vs, ver))
            write()
            evaluate(si)
        if ev is not None:
            ev.case(case, len(set(hist)) > 1, features=["load-behind-local-import", "local-import:" + case["form"], "place:local-" + case["where"], "order:" + case["order"]])
    finally:
        w.close()
        if own:
            scratch.clean()


# ---- uninstrumented pipeline: no recording calls inside the functions, staleness is judged from values only ---------------

PURE_SRC = """import dds

VS = {vs}


def prod():
    return ('prod', VS)


def mk():
    return dds.keep('/src/v', prod)


def nprod():
    return None


def read():
{rform}


def mid():
    return ('mid', read())


def bump(x):
    return ('bump', x)


def enriched():
    return bump({inner}())


def report():
    return ('report', enriched())


def render(fn):
    return ('render', fn())


def root():
    return dds.keep('/en', {kept})
"""


# the statement shapes through which the reader obtains the loaded value
RFORMS = {
    "return": "    return dds.load('/src/v')",
    "subscript": "    res = {}\n    res['raw'] = dds.load('/src/v')\n    return res['raw']",
    "tuple_target": "    a, b = dds.load('/src/v'), 1\n    return a",
    "annassign": "    v: object = dds.load('/src/v')\n    return v",
    "augassign": "    out = ()\n    out += (dds.load('/src/v'),)\n    return out[0]",
    "listelem": "    return [dds.load('/src/v')][0]",
    # a None-valued result kept and loaded back in the same evaluation, before the load that matters
    "none_first": "    dds.keep('/src/n', nprod)\n    nothing = dds.load('/src/n')\n    return dds.load('/src/v') if nothing is None else nothing",
}


def pure_strategy():
    from hypothesis import strategies as st

    return st.fixed_dictionaries({
        "pure": st.just(True),
        "inner": st.sampled_from(["read", "mid"]),
        # render_ho: the loading function is handed by name to the kept function, which calls it
        "kept": st.sampled_from(["enriched", "report", "read", "render_ho", "render_ho"]),
        "rform": st.sampled_from(sorted(RFORMS)),
        "store": st.sampled_from(STORES).map(list),
        "edits": st.lists(st.sampled_from(["live", "live", "reload", "none", "revert_live"]), min_size=1, max_size=4),
    })


def check_pure(case, ev=None, scratch=None):
    """The functions contain nothing but the pipeline (the recording calls of the other programs are themselves external
    dependencies and could hide shortcuts taken for functions without any): a kept function whose callee loads a path must
    follow the content of that path, judged from the returned values."""
    from ..harness import proc
    import os

    own = scratch is None
    scratch = scratch or common.Scratch("vf-c09")
    root_dir, store_dir = scratch.sub(), scratch.sub()
    w = proc.Worker()
    tag = f"[uninstrumented pipeline, kept={case['kept']} via {case['inner']}, reader form {case.get('rform', 'return')}, {case['store'][0]}]"
    try:
        vs = 1
        hist = [vs]
        mt = [1600000000]

        def files():
            kept = case["kept"] if case["kept"] != "render_ho" else "render, " + case["inner"]
            return {"pk/__init__.py": "", "pk/m0.py": PURE_SRC.format(vs=vs, inner=case["inner"], kept=kept, rform=RFORMS[case.get("rform", "return")])}

        for rel, content in files().items():
            pth = os.path.join(root_dir, rel)
            os.makedirs(os.path.dirname(pth), exist_ok=True)
            open(pth, "w").write(content)
            os.utime(pth, (mt[0], mt[0]))
        w.call("init", root=root_dir, accepted=["pk"], store={"kind": case["store"][0], "dir": store_dir, "cache": case["store"][1]})

        def want():
            src = ("prod", vs)
            inner = src if case["inner"] == "read" else ("mid", src)
            en = ("bump", inner)
            return {"enriched": en, "report": ("report", en), "read": src, "render_ho": ("render", inner)}[case["kept"]]

        def evaluate(step):
            r = w.call("eval", module="pk.m0", func="mk", style="eval")
            if r["exc"] is not None or r["value"] != ("prod", vs):
                raise Violation(f"{tag} step {step}: keeping the producer gave {r['exc'] or r['value']!r}", case)
            r = w.call("eval", module="pk.m0", func="root", style="eval")
            if r["exc"] is not None:
                raise Violation(f"{tag} step {step}: evaluation raised {r['exc']['type']}: {r['exc']['msg'][:300]}", case)
            if r["value"] != want():
                raise Violation(f"{tag} step {step}: the kept function returned {r['value']!r}, /src/v now serves {('prod', vs)!r} (expected {want()!r}); edits={case['edits']}", case)
            r = w.call("load", path="/en")
            if r["exc"] is not None or r["value"] != want():
                raise Violation(f"{tag} step {step}: dds.load('/en') gives {r['exc'] or r['value']!r}, expected {want()!r}", case)

        evaluate(-1)
        for si, ed in enumerate(case["edits"]):
            if ed in ("live", "reload"):
                vs = max(hist) + 1
            elif ed == "revert_live" and len(hist) > 1:
                vs = hist[-2]
            hist.append(vs)
            mt[0] += 10
            w.call("write_files", files=files(), reload=False, mtime=mt[0])
            if ed == "reload":
                w.call("call", module="vf.harness.session", func="_reload_present", args=[["pk", "pk.m0"]])
            else:
                w.call("call", module="vf.harness.worker", func="cmd_setvar", args=["pk.m0", "VS", vs])
            evaluate(si)
        if ev is not None:
            ev.case(case, len(set(hist)) > 1, features=["uninstrumented-pipeline", "pure-kept:" + case["kept"], "reader-form:" + case.get("rform", "return")] + ["pure-edit:" + e for e in sorted(set(case["edits"]))])
    finally:
        w.close()
        if own:
            scratch.clean()


def enc_any(v):
    if isinstance(v, tuple):
        return ["t"] + [enc_any(x) for x in v]
    if isinstance(v, list):
        return ["l"] + [enc_any(x) for x in v]
    return repr(v)


def shard(idx, n, tier, seed, count):
    ev = Ev()
    scratch = common.Scratch("vf-c09")
    try:
        v = common.hyp_drive(case_strategy(), lambda c: check_case(c, ev, scratch), seed * 1000 + 900 + idx, count, ev)
        if v is None:
            v = common.hyp_drive(dyn_strategy(), lambda c: check_dynamic(c, ev, scratch), seed * 1000 + 950 + idx, max(4, count // 5), ev)
        if v is None:
            v = common.hyp_drive(pure_strategy(), lambda c: check_pure(c, ev, scratch), seed * 1000 + 990 + idx, max(3, count // 8), ev)
        if v is None:
            v = common.hyp_drive(loc_strategy(common.open_features(ID)), lambda c: check_local_import(c, ev, scratch), seed * 1000 + 970 + idx, max(3, count // 8), ev)
    finally:
        scratch.clean()
    return ev, v


def run(tier, seed, scale=1.0):
    count = int((40 if tier == "quick" else 600) * scale)
    return common.run_shards(shard, 16, tier=tier, seed=seed, count=count)


def replay(case):
    if case.get("dyn"):
        check_dynamic(case)
    elif case.get("loc"):
        check_local_import(case)
    elif case.get("pure"):
        check_pure(case)
    else:
        check_case(case)
