"""C04 - a committed path serves the value of the latest evaluation that kept it.

Generated: PipeLang programs (results as tuples / text / bytes) x edit histories x store kinds x path shapes.
Oracle: dict model path -> value; dds.load in the same process and in a fresh process; for the local store
the bytes of the file under the data directory for text/bytes results.
"""
import os

from .. import common
from ..common import Ev, Violation
from ..harness.session import Session
from ..pipelang import model as M
from ..pipelang import gen as G
from . import c01

ID = "C04"
LEVEL = "exploration"
RULE = (
    "Hypothesis-generated PipeLang programs whose functions return tuples, text or bytes, kept at paths of 1-4 segments in "
    "shared directories, x histories of evaluations, edits (incl. changing the path of a data function), restarts x store "
    "{memory, local, local+LRU, DBFS over the fake dbutils}. A dict model records the value each keep returned; after every "
    "evaluation every path kept so far is loaded with dds.load in the same process and (persistent stores) in a fresh process, "
    "and for local stores the file <data_dir>/<segments> is compared byte-for-byte with text/bytes results. Non-trivial = "
    ">=2 evaluations over overlapping path sets with >=1 re-keep whose value changed and >=1 path left untouched; distinct by (program, steps, store)."
)
ASSUMPTIONS = [
    "the paths an evaluation keeps are all keeps of its static call tree (keeps are unconditional in PipeLang)",
    "DBFS is the in-process fake of dbutils.fs",
]

STORES = [("memory", None), ("local", None), ("local-lru", 2), ("dbfs", None)]


def history_strategy(opts):
    from hypothesis import strategies as st

    @st.composite
    def gen(draw):
        prog = draw(G.programs(opts))
        kind, cache = draw(st.sampled_from(STORES))
        persistent = kind != "memory"
        steps = []
        cur = prog
        snaps = [prog]
        ents = G.entries(cur)
        root, style = draw(st.sampled_from(ents[-2:] if len(ents) > 1 else ents))
        steps.append(["eval", root, style])
        # a second entry point early on: its paths stay untouched by the later evaluations of the first one
        if len(ents) > 1 and draw(st.integers(0, 2)):
            r2, s2 = draw(st.sampled_from(ents))
            steps.append(["eval", r2, s2])
        for _ in range(draw(st.integers(1, 5))):
            c = draw(st.sampled_from(["edit", "edit", "eval", "restart", "setpath", "revert", "edit_other", "edit_other"] if persistent else ["edit", "edit", "eval", "setpath", "revert"]))
            if c == "edit":
                ed = draw(G.edits(cur, root, kinds=["setvar", "bump", "setlit", "pad", "bumpcls"], opts=opts))
                cur = M.apply_edit(cur, ed)
                steps.append(["edit", ed, draw(st.booleans()) or not persistent])
                steps.append(["eval", root, style])
            elif c == "setpath":
                datas = [i for i, f in enumerate(cur["funcs"]) if M.is_data(f)]
                if not datas:
                    continue
                fi = draw(st.sampled_from(datas))
                newp = draw(st.sampled_from(["/moved/q{n}", "/q{n}", "/dir/q{n}"])).format(n=len(steps))
                ed = ["setpath", fi, newp]
                cur = M.apply_edit(cur, ed)
                steps.append(["edit", ed, draw(st.booleans()) or not persistent])
                steps.append(["eval", root, style])
            elif c == "eval":
                r2, s2 = draw(st.sampled_from(G.entries(cur)))
                steps.append(["eval", r2, s2])
            elif c == "revert":
                if len(snaps) < 2:
                    continue
                cur = snaps[draw(st.integers(0, len(snaps) - 2))]
                steps.append(["revert", snaps.index(cur), draw(st.booleans()) or not persistent])
                steps.append(["eval", root, style])
            elif c == "edit_other":
                # the edit is made and evaluated by ANOTHER process on the same store while this one stays alive
                ed = draw(G.edits(cur, root, kinds=["setvar", "bump", "setlit"], opts=opts))
                cur = M.apply_edit(cur, ed)
                steps.append(["edit_other", ed, root, style])
            else:
                steps.append(["restart"])
            if cur is not snaps[-1]:
                snaps.append(cur)
        return {"prog": prog, "store": [kind, cache], "steps": steps}

    return gen()


def data_file(sess, path):
    segs = [s for s in path.split("/") if s]
    if sess.store_kind in ("local", "local-lru"):
        return os.path.join(sess.store_dir, "data", *segs)
    if sess.store_kind == "dbfs":
        return os.path.join(sess.store_dir, "dbfsroot", "data", *segs)
    return None


def check_case(case, ev=None, scratch=None):
    own = scratch is None
    scratch = scratch or common.Scratch("vf-c04")
    kind, cache = case["store"]
    sess = Session(scratch, kind, cache)
    model = {}
    stats = {"evals": 0, "rekeep_changed": 0, "untouched": 0}
    try:
        cur = case["prog"]
        snaps = [cur]
        sess.write(cur)
        sess.start()

        def check_paths(when, fresh):
            for p, v in sorted(model.items()):
                r = sess.load(p)
                if r["exc"] is not None:
                    raise Violation(f"{when}: dds.load({p!r}) ({'fresh process' if fresh else 'same process'}) raised {r['exc']['type']}: {r['exc']['msg'][:200]}; steps={case['steps']}", case)
                if not same(r["value"], v):
                    raise Violation(f"{when}: dds.load({p!r}) ({'fresh process' if fresh else 'same process'}) = {r['value']!r} but the latest keep returned {v!r}; steps={case['steps']} store={case['store']}", case)
                fp = data_file(sess, p)
                if fp is not None and isinstance(v, (str, bytes)):
                    want = v.encode("utf-8") if isinstance(v, str) else v
                    try:
                        with open(fp, "rb") as fh:
                            got = fh.read()
                    except OSError as e:
                        raise Violation(f"{when}: file for {p} under the data directory is not readable: {e}", case)
                    if got != want:
                        raise Violation(f"{when}: file for {p} under the data directory holds {got[:60]!r}, the keep returned {want[:60]!r}", case)

        for si, stp in enumerate(case["steps"]):
            k = stp[0]
            if k == "eval":
                res = sess.eval(stp[1], stp[2])
                if res["exc"] is not None:
                    raise Violation(f"step {si} EVAL raised {res['exc']['type']}: {res['exc']['msg'][:300]}\n{res['exc'].get('tb_tail','')[-500:]}", case)
                exp, it = M.expected_value(cur, stp[1])
                if not same(res["value"], exp):
                    raise Violation(f"step {si} EVAL returned {res['value']!r}, plain execution {exp!r}", case)
                kept_now = dict(it.kept)
                if stp[2] == "eval" and M.is_data(cur["funcs"][stp[1]]) is False:
                    pass
                for p, v in kept_now.items():
                    if p in model and not same(model[p], v):
                        stats["rekeep_changed"] += 1
                stats["untouched"] += len([p for p in model if p not in kept_now])
                model.update(kept_now)
                stats["evals"] += 1
                check_paths(f"after step {si} EVAL f{stp[1]}", fresh=False)
            elif k == "edit_other":
                cur = M.apply_edit(cur, stp[1])
                snaps.append(cur)
                main_w = sess.w
                sess.w = None
                sess.write(cur)          # files on disk change; the main process keeps its old modules
                sess.start()             # second process
                res = sess.eval(stp[2], stp[3])
                sess.close()
                sess.w = main_w
                if res["exc"] is not None:
                    raise Violation(f"step {si} EVAL in another process raised {res['exc']['type']}: {res['exc']['msg'][:300]}", case)
                exp, it = M.expected_value(cur, stp[2])
                for p, v in it.kept.items():
                    if p in model and not same(model[p], v):
                        stats["rekeep_changed"] += 1
                stats["untouched"] += len([p for p in model if p not in it.kept])
                model.update(it.kept)
                stats["evals"] += 1
                stats["other"] = stats.get("other", 0) + 1
                check_paths(f"after step {si} (evaluation by another process)", fresh=False)
                # bring the main process to the same program version before it evaluates again
                sess.inproc_edit(cur)
            elif k in ("edit", "revert"):
                cur = M.apply_edit(cur, stp[1]) if k == "edit" else snaps[stp[1]]
                snaps.append(cur)
                if stp[2]:
                    sess.inproc_edit(cur)
                else:
                    sess.write(cur)
                    sess.restart()
                    check_paths(f"after restart at step {si}", fresh=True)
            elif k == "restart":
                sess.restart()
                check_paths(f"after restart at step {si}", fresh=True)
        if kind != "memory":
            sess.restart()
            check_paths("at the end", fresh=True)
        if ev is not None:
            nt = stats["evals"] >= 2 and stats["rekeep_changed"] >= 1 and stats["untouched"] >= 1
            feats = ["store:" + kind] + (["other-process-eval"] if stats.get("other") else []) + (["revert"] if any(s[0] == "revert" for s in case["steps"]) else []) + [f for f in c01.features({"prog": case["prog"], "store": case["store"], "steps": case["steps"]}) if f.startswith("edit:")]
            if any(f.get("ret") in ("text", "bytes") for f in case["prog"]["funcs"]):
                feats.append("text-or-bytes-result")
            if any(len([s for s in p.split("/") if s]) >= 3 for p in model):
                feats.append("path>=3segments")
            ev.case(c01.slim(case), nt, features=feats, key=[M.pkey(case["prog"]), case["steps"], case["store"]])
    finally:
        sess.close()
        if own:
            scratch.clean()


DYN_SRC = """import dds
import sys
import vlog

VER = {ver}


def leaf():
    vlog.rec('leaf')
    return ('leaf', VER)


def helper():
    return dds.keep('/out/leaf', leaf)


def root():
    vlog.rec('root')
    h = getattr(sys.modules[__name__], 'hel' + 'per')   # a call that the static analysis cannot follow
    return ('root', h())
"""


def check_dynamic_keep(case, ev=None, scratch=None):
    """A keep reached through a call dds cannot analyse: the evaluation is refused with a DDS error, or the path it
    kept serves the value it returned - never a returned value with the path left behind."""
    from ..harness import proc

    own = scratch is None
    scratch = scratch or common.Scratch("vf-c04")
    root = scratch.sub()
    store_dir = scratch.sub()
    w = proc.Worker()
    try:
        mt = 1600000000
        outcomes = []
        for i, ver in enumerate(case["versions"]):
            files = {"pk/__init__.py": "", "pk/m0.py": DYN_SRC.format(ver=ver)}
            mt += 10
            if i == 0:
                for rel, content in files.items():
                    pth = os.path.join(root, rel)
                    os.makedirs(os.path.dirname(pth), exist_ok=True)
                    open(pth, "w").write(content)
                    os.utime(pth, (mt, mt))
                w.call("init", root=root, accepted=["pk"], store={"kind": case["store"], "dir": store_dir})
            else:
                w.call("write_files", files=files, reload=False, mtime=mt)
                w.call("call", module="vf.harness.session", func="_reload_present", args=[["pk", "pk.m0"]])
            r = w.call("eval", module="pk.m0", func="root", style="eval")
            if r["exc"] is not None:
                if not r["exc"]["is_dds"]:
                    raise Violation(f"dynamic keep (version {ver}, store {case['store']}): raised {r['exc']['type']}: {r['exc']['msg'][:200]} (neither a DDS refusal nor a result)", case)
                outcomes.append("refused")
                continue
            if r["value"] != ("root", ("leaf", ver)):
                raise Violation(f"dynamic keep (version {ver}): returned {r['value']!r}", case)
            ld = w.call("load", path="/out/leaf")
            if ld["exc"] is not None or ld["value"] != ("leaf", ver):
                raise Violation(
                    f"dynamic keep (version {ver}, store {case['store']}): the evaluation returned {r['value']!r} but the path /out/leaf it kept "
                    f"serves {ld['exc']['msg'][:120] if ld['exc'] else repr(ld['value'])}", case)
            outcomes.append("committed")
        if ev is not None:
            ev.case(case, True, features=["dynamic-keep:" + "+".join(sorted(set(outcomes)))])
    finally:
        w.close()
        if own:
            scratch.clean()


SHAPE_SRC = """import dds
import vlog

VER = {ver}


def leaf():
    vlog.rec('leaf')
    return {ret}


def root():
    vlog.rec('root')
    return dds.keep({path!r}, leaf)
"""
SHAPE_RETS = {"tuple": "('leaf', VER)", "text": "'leaf %d' % VER", "bytes": "b'leaf %d' % VER"}


def shape_strategy():
    from hypothesis import strategies as st

    seg = st.sampled_from(["reports", "daily", "a", "b"])
    base = st.lists(seg, min_size=1, max_size=3)
    # each step keeps either a longer path below the previous one, a prefix of it, or the same / an unrelated path
    step = st.tuples(st.sampled_from(["deeper", "deeper", "prefix", "prefix", "same", "other"]), seg, st.booleans()).map(list)
    return st.fixed_dictionaries({"shape": base, "store": st.sampled_from(["local", "local", "local-lru", "memory"]), "ret": st.sampled_from(sorted(SHAPE_RETS)),
                                  "steps": st.lists(step, min_size=1, max_size=4)})


def check_path_shape(case, ev=None, scratch=None):
    """Between two evaluations the kept path changes shape: what used to be a directory of the data directory becomes an object
    (/reports/daily/summary, then /reports/daily) or the reverse.  Each evaluation is either refused (it raises: nothing is
    claimed for it) or, when it returns, the path it kept serves the value it returned - through dds.load and, for the local
    store, through the file under the data directory."""
    from ..harness import proc

    own = scratch is None
    scratch = scratch or common.Scratch("vf-c04")
    root, store_dir = scratch.sub(), scratch.sub()
    w = [proc.Worker()]
    try:
        mt = 1600000000
        segs = list(case["shape"])
        outcomes, kinds = [], set()

        def init():
            w[0].call("init", root=root, accepted=["pk"], store={"kind": case["store"], "dir": store_dir})

        for i, (how, seg, inproc) in enumerate([["same", "", True]] + case["steps"]):
            if how == "deeper":
                segs = segs + [seg]
            elif how == "prefix" and len(segs) > 1:
                segs = segs[:-1]
            elif how == "other":
                segs = ["elsewhere", seg]
            kinds.add(how)
            path = "/" + "/".join(segs)
            files = {"pk/__init__.py": "", "pk/m0.py": SHAPE_SRC.format(ver=i, path=path, ret=SHAPE_RETS[case["ret"]])}
            mt += 10
            if i == 0 or not (inproc or case["store"] == "memory"):
                for rel, content in files.items():
                    pth = os.path.join(root, rel)
                    os.makedirs(os.path.dirname(pth), exist_ok=True)
                    open(pth, "w").write(content)
                    os.utime(pth, (mt, mt))
                if i > 0:
                    w[0].close()
                    w[0] = proc.Worker()
                init()
            else:
                w[0].call("write_files", files=files, reload=False, mtime=mt)
                w[0].call("call", module="vf.harness.session", func="_reload_present", args=[["pk", "pk.m0"]])
            r = w[0].call("eval", module="pk.m0", func="root", style="eval")
            tag = f"path shape change (store {case['store']}, step {i}: {how} -> keep {path})"
            if r["exc"] is not None:
                outcomes.append("refused")
                continue
            want = {"tuple": ("leaf", i), "text": "leaf %d" % i, "bytes": b"leaf %d" % i}[case["ret"]]
            if not same(r["value"], want):
                raise Violation(f"{tag}: returned {r['value']!r}, plain execution gives {want!r}", case)
            ld = w[0].call("load", path=path)
            if ld["exc"] is not None or not same(ld["value"], want):
                raise Violation(f"{tag}: the evaluation returned {r['value']!r} but load({path}) gives "
                                f"{(ld['exc']['type'] + ': ' + ld['exc']['msg'][:160]) if ld['exc'] else repr(ld['value'])}", case)
            if case["store"] != "memory" and case["ret"] in ("text", "bytes"):
                fp = os.path.join(store_dir, "data", *segs)
                raw = want.encode() if isinstance(want, str) else want
                try:
                    with open(fp, "rb") as fh:
                        got = fh.read()
                except OSError as e:
                    raise Violation(f"{tag}: the evaluation returned but the file of {path} under the data directory cannot be read: {type(e).__name__}: {e}", case)
                if got != raw:
                    raise Violation(f"{tag}: the file of {path} under the data directory holds {got[:60]!r}, the keep returned {raw!r}", case)
            outcomes.append("committed")
        if ev is not None:
            ev.case(case, bool(kinds & {"deeper", "prefix"}), features=["path-shape:" + "+".join(sorted(kinds)), "shape-outcomes:" + "+".join(sorted(set(outcomes)))])
    finally:
        w[0].close()
        if own:
            scratch.clean()


def same(a, b):
    if isinstance(a, bytearray):
        a = bytes(a)
    return type(a) == type(b) and a == b


def shard(idx, n, tier, seed, count):
    ev = Ev()
    scratch = common.Scratch("vf-c04")
    opts = {"exclude": common.open_features(ID), "rets": True}
    try:
        v = common.hyp_drive(history_strategy(opts), lambda c: check_case(c, ev, scratch), seed * 1000 + 400 + idx, count, ev)
        if v is None and idx < 3:
            try:
                check_dynamic_keep({"dyn_keep": True, "store": ["memory", "local", "local-lru"][idx], "versions": [1, 2, 2, 3]}, ev, scratch)
            except Violation as viol:
                v = viol
        if v is None and idx % 4 == 3:
            v = common.hyp_drive(shape_strategy(), lambda c: check_path_shape(c, ev, scratch), seed * 1000 + 450 + idx, max(3, count // 6), ev)
    finally:
        scratch.clean()
    return ev, v


def run(tier, seed, scale=1.0):
    count = int((30 if tier == "quick" else 500) * scale)
    return common.run_shards(shard, 16, tier=tier, seed=seed, count=count)


def replay(case):
    if case.get("dyn_keep"):
        check_dynamic_keep(case)
    elif "shape" in case:
        check_path_shape(case)
    else:
        check_case(case)
