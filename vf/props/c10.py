"""C10 - a failing user function is never cached and leaves dds and the store clean.

Generated: PipeLang programs x every reachable function chosen as the failing one x exception classes x
follow-up evaluations.  Oracle: identity of the propagated exception object, store traffic (no blob under the
signature of the failing node or of the nodes waiting for it, no path committed), clean dds state, follow-up
evaluations equal to the reference model.
"""
import os

from .. import common
from ..common import Ev, Violation
from ..harness.session import Session
from ..pipelang import model as M
from ..pipelang import gen as G
from . import c01

ID = "C10"
LEVEL = "fault_enumeration"
RULE = (
    "Hypothesis-generated PipeLang programs on a fresh store {memory, local, local+LRU}; one function reachable from the "
    "evaluated root is made to raise (through the non-accepted log module) an instance of {ValueError, KeyError, custom "
    "Exception, KeyboardInterrupt, SystemExit, GeneratorExit, a DDSException raised by user code}; checked: the very same "
    "object propagates, keys passed to store_blob are only signatures of kept nodes that completed before the failure "
    "(signatures come from a fault-free twin run on a separate store), sync_paths is never called, the blobs directory "
    "holds nothing else, dds is not left inside an evaluation; follow-ups: same pipeline with the fault cleared, another "
    "entry point, the same pipeline failing at another node - all equal to the reference model, executing nothing beyond a "
    "fresh run. Non-trivial = the failing function has >=1 kept node completed before it and >=1 kept ancestor waiting; "
    "distinct by (program, failing node, exception)."
)
ASSUMPTIONS = [
    "signatures are store independent (C03), so the twin run on another store gives the keys of the failed evaluation",
]

EXCS = ["ValueError", "KeyError", "CustomError", "KeyboardInterrupt", "SystemExit", "GeneratorExit", "DDSException", "MemoryError",
        "AssertionError:empty", "ValueError:empty", "KeyboardInterrupt:empty"]
STORES = [("memory", None), ("local", None), ("local-lru", 2)]


def case_strategy(opts):
    from hypothesis import strategies as st

    @st.composite
    def gen(draw):
        if draw(st.integers(0, 7)) == 0:
            # a pipeline that keeps a path, reads it back with dds.load in the same evaluation, and then fails in a later function
            from . import c09

            prog, root, _p, _rk = c09.build(draw(st.sampled_from(["root", "helper", "kept", "kept_helper"])), "same_before",
                                            draw(st.sampled_from(["data", "keepcall"])), 0, False, False, draw(st.booleans()))
            prog["funcs"].append({"name": "tail", "mod": 0, "params": [], "ver": 0, "pad": 0, "data": None, "body": [["ext", 2]]})
            prog["funcs"][root]["body"].append(["call", len(prog["funcs"]) - 1, "bare", []])
            kind, cache = draw(st.sampled_from(STORES))
            return {"prog": prog, "root": root, "style": "eval", "node": "tail", "node2": "tail", "exc": draw(st.sampled_from(EXCS)),
                    "exc2": draw(st.sampled_from(EXCS)), "store": [kind, cache], "follow": draw(st.lists(st.sampled_from(["same", "fail_other", "same"]), min_size=1, max_size=2))}
        prog = draw(G.programs(opts))
        ents = G.entries(prog)
        root, style = draw(st.sampled_from(ents[-2:] if len(ents) > 1 else ents))
        _, it = M.expected_value(prog, root)
        names = list(dict.fromkeys(n for n in it.executed if not n.endswith(".m")))
        # prefer failing functions with completed kept work before them and kept ancestors waiting for them
        good = []
        for nm in names:
            comp, stack = completed_before_failure(prog, root, nm) or (None, None)
            if comp and stack:
                good.append(nm)
        node = draw(st.sampled_from(good)) if good and draw(st.integers(0, 4)) else draw(st.sampled_from(names))
        node2 = draw(st.sampled_from(names))
        kind, cache = draw(st.sampled_from(STORES))
        follow = draw(st.lists(st.sampled_from(["same", "other", "fail_other", "same"]), min_size=1, max_size=3))
        return {"prog": prog, "root": root, "style": style, "node": node, "node2": node2, "exc": draw(st.sampled_from(EXCS)),
                "exc2": draw(st.sampled_from(EXCS)), "store": [kind, cache], "follow": follow, "no_debug": draw(st.integers(0, 3)) == 0}

    return gen()


def completed_before_failure(prog, root, node, served=None):
    """(paths completed before `node` first runs, kept paths waiting at that moment) or None if it never runs"""
    it = M.Interp(prog)
    it.fail_at = node
    it.served = served
    f = prog["funcs"][root]
    try:
        it.call(root, [M.NO] * len(f["params"]))
    except M.InjectedFailure:
        return set(it.kept), list(getattr(it, "stack_at_failure", []))
    return None


def blob_files(sess):
    d = os.path.join(sess.store_dir, "internal", "blobs")
    if not os.path.isdir(d):
        return set()
    return {n.split(".")[0] for n in os.listdir(d)}


def data_links(sess):
    d = os.path.join(sess.store_dir, "data")
    out = set()
    if os.path.isdir(d):
        for dp, dn, fn in os.walk(d):
            for n in fn:
                out.add(os.path.join(dp, n))
    return out


def expect_failure(sess, case, prog, root, style, node, excname, sigs, already_stored, when, may_be_cached=False):
    served = (lambda p: sigs.get(p) in already_stored)
    cf = completed_before_failure(prog, root, node, served)
    links0 = data_links(sess)
    res = sess.eval(root, style, fail={"node": node, "exc": excname})
    if cf is None:
        # the failing function is served from the store (earlier evaluations completed it): nothing fails
        exp, _ = M.expected_value(prog, root)
        if res["exc"] is not None or res["value"] != exp:
            raise Violation(f"{when}: expected {exp!r} (the failing function is served from the store) but got {res['exc'] or res['value']!r}", case)
        return set(), [], set(res.get("stored", [])), True
    completed, stack = cf
    if res["exc"] is None and may_be_cached and node not in res["log"]:
        # the failing function never ran: the evaluated root itself was served from the store (dds.eval serves the root
        # when an earlier evaluation stored a blob under the same signature, e.g. because it kept that very function)
        exp, _ = M.expected_value(prog, root)
        if res["value"] != exp:
            raise Violation(f"{when}: returned {res['value']!r}, plain execution gives {exp!r}", case)
        return set(), [], set(res.get("stored", [])), True
    if res["exc"] is None:
        raise Violation(f"{when}: {node} raised {excname} but the evaluation returned {res['value']!r}", case)
    if not res["exc"]["same_object"]:
        raise Violation(f"{when}: {node} raised an instance of {excname} but another object came out of dds: {res['exc']['type']}: {res['exc']['msg'][:200]}", case)
    if not res["ctx_clean"]:
        raise Violation(f"{when}: dds is still inside an evaluation after {excname} propagated", case)
    allowed = {sigs[p] for p in completed if p in sigs} | set(already_stored)
    bad = [k for k in res.get("stored", []) if k not in allowed]
    if bad:
        names = {v: k for k, v in sigs.items()}
        raise Violation(
            f"{when}: after {node} raised {excname}, blobs were stored for {[names.get(k, k[:8]) for k in bad]} which had not completed "
            f"(completed={sorted(completed)}, waiting={stack})", case)
    if res.get("synced"):
        raise Violation(f"{when}: paths were committed although {node} raised {excname}: {[list(d) for d in res['synced']]}", case)
    if sess.store_kind != "memory":
        extra = blob_files(sess) - allowed
        extra = {k for k in extra if k}
        if extra:
            raise Violation(f"{when}: blob files exist for signatures that never completed: {sorted(k[:8] for k in extra)}", case)
        if data_links(sess) != links0:
            raise Violation(f"{when}: the data directory changed although the evaluation failed", case)
    return completed, stack, set(res.get("stored", [])), False


def check_committed(sess, it, when, case):
    """after a successful evaluation every path it kept is committed (as if the failed evaluation had not happened)"""
    for p, v in sorted(it.kept.items()):
        r = sess.load(p)
        if r["exc"] is not None:
            raise Violation(f"{when}: the evaluation succeeded but its path {p} does not load: {r['exc']['type']}: {r['exc']['msg'][:200]}", case)
        if r["value"] != v:
            raise Violation(f"{when}: the evaluation succeeded but its path {p} loads {r['value']!r}, kept value {v!r}", case)


def check_path_state(sess, all_paths, committed, when, case):
    """every path serves what the last SUCCESSFUL evaluation that kept it returned; a path kept only by failed evaluations
    is absent (also after later evaluations of other pipelines)"""
    for p in all_paths:
        r = sess.load(p)
        if p in committed:
            if r["exc"] is not None or r["value"] != committed[p]:
                raise Violation(f"{when}: the path {p} loads {r['exc']['type'] if r['exc'] else repr(r['value'])}, the last successful evaluation kept {committed[p]!r}", case)
        elif r["exc"] is None:
            raise Violation(f"{when}: the path {p} loads {r['value']!r} although no successful evaluation has kept it (it belongs to an evaluation that failed)", case)
        elif not r["exc"]["is_dds"]:
            raise Violation(f"{when}: loading the never committed path {p} raised {r['exc']['type']}: {r['exc']['msg'][:200]} instead of a DDS error", case)


def check_case(case, ev=None, scratch=None):
    own = scratch is None
    scratch = scratch or common.Scratch("vf-c10")
    kind, cache = case["store"]
    prog, root, style = case["prog"], case["root"], case["style"]
    twin = Session(scratch, "memory")
    sess = Session(scratch, kind, cache)
    try:
        twin.write(prog)
        twin.start()
        sigs = {}
        fresh_logs = {}
        t = twin.eval(root, style)
        if t["exc"] is not None:
            raise Violation(f"fault-free twin run of f{root} raised {t['exc']['type']}: {t['exc']['msg'][:200]}", case)
        for d in t["synced"]:
            sigs.update(d)
        twin.close()
        sess.root = twin.root
        sess.prog = prog
        sess.start()
        if case.get("no_debug"):
            sess.w.call("call", module="dds", func="set_option", args=["extra_debug", False])
        all_paths = sorted({s_["path"] for (e_, st_) in G.entries(prog) for s_ in M.kept_sites(prog, e_)})
        committed = {}
        completed, stack, stored, succeeded = expect_failure(sess, case, prog, root, style, case["node"], case["exc"], sigs, set(), "first evaluation")
        all_stored = set(stored)
        if succeeded:
            committed.update(M.expected_value(prog, root)[1].kept)
        check_path_state(sess, all_paths, committed, "after the first (failing) evaluation", case)
        for fi, fol in enumerate(case["follow"]):
            when = f"follow-up {fi} ({fol})"
            if fol == "same":
                res = sess.eval(root, style)
                exp, it = M.expected_value(prog, root)
                if res["exc"] is not None:
                    raise Violation(f"{when}: evaluation after the failure raised {res['exc']['type']}: {res['exc']['msg'][:300]}", case)
                if res["value"] != exp:
                    raise Violation(f"{when}: returned {res['value']!r}, plain execution gives {exp!r}", case)
                fresh = it.executed
                extra = [n for n in res["log"] if res["log"].count(n) > fresh.count(n)]
                if extra:
                    raise Violation(f"{when}: executed {sorted(set(extra))} more often than a fresh run would (log={res['log']})", case)
                for p, k in res["sigs"].items():
                    if p in sigs and sigs[p] != k:
                        raise Violation(f"{when}: signature of {p} differs from the fault-free twin run", case)
                check_committed(sess, it, when, case)
                committed.update(it.kept)
                check_path_state(sess, all_paths, committed, when, case)
                all_stored |= set(res.get("stored", []))
            elif fol == "other":
                ents = [e for e in G.entries(prog) if e[1] == "eval"]
                r2, s2 = ents[(fi + len(case["node"])) % len(ents)]
                res = sess.eval(r2, s2)
                exp, it = M.expected_value(prog, r2)
                if res["exc"] is not None or res["value"] != exp:
                    raise Violation(f"{when}: evaluating f{r2} after the failure gave {res['exc'] or res['value']!r}, expected {exp!r}", case)
                check_committed(sess, it, when, case)
                committed.update(it.kept)
                check_path_state(sess, all_paths, committed, when, case)
                all_stored |= set(res.get("stored", []))
            else:
                _c, _s, st2, succeeded = expect_failure(sess, case, prog, root, style, case["node2"], case["exc2"], sigs, all_stored, when,
                                                        may_be_cached=True)
                all_stored |= st2
                if succeeded:
                    committed.update(M.expected_value(prog, root)[1].kept)
                check_path_state(sess, all_paths, committed, when, case)
        if ev is not None:
            sites = M.kept_sites(prog, root)
            nt = len(completed) >= 1 and len(stack) >= 1
            ev.case({"failing": case["node"], "exc": case["exc"], "follow": case["follow"], "store": case["store"],
                     "program": c01.slim({"prog": prog, "store": None, "steps": []})["program"]}, nt,
                    features=["exc:" + case["exc"], "store:" + kind] + [f"follow:{f}" for f in case["follow"]]
                    + (["completed>=1"] if completed else []) + (["waiting>=1"] if stack else []) + (["waiting>=2"] if len(stack) >= 2 else []),
                    key=[M.pkey(prog), case["node"], case["exc"], case["store"]])
    finally:
        twin.close()
        sess.close()
        if own:
            scratch.clean()


THREAD_SRC = """import threading

import dds
import vlog


def left():
    vlog.rec('left')
    return 'left'


def right():
    vlog.rec('right')
    return 'right'


def keep_left():
    return dds.keep('/thr/left', left)


def keep_right():
    return dds.keep('/thr/right', right)


def check():
    vlog.rec('check')
    return 'checked'


def pipeline():
    vlog.rec('pipeline')
    out = []
    for target in (keep_left, keep_right):
        t = threading.Thread(target=lambda: out.append(target()))
        t.start()
        t.join()
    c = dds.keep('/thr/check', check)
    return '+'.join(out) + ':' + c
"""


FINALLY_SRC = """import dds
import vlog


def cleanup():
    vlog.rec('cleanup')
    return 'c'


def inner():
    vlog.rec('inner')
    return 'i'


def mid():
    vlog.rec('mid')
    try:
        return dds.keep('/fin/inner', inner)
    {clause}:
        dds.keep('/fin/cleanup', cleanup){reraise}


def pipeline():
    vlog.rec('pipeline')
    return dds.keep('/fin/mid', mid)
"""


def finally_strategy():
    from hypothesis import strategies as st

    return st.fixed_dictionaries({"finally": st.sampled_from(["finally", "except"]), "exc": st.sampled_from(EXCS), "store": st.sampled_from(STORES).map(list),
                                  "no_debug": st.booleans()})


def check_finally(case, ev=None, scratch=None):
    """A waiting function keeps another result in its `finally` (or re-raising `except BaseException`) clause while the exception of
    the function it was waiting for unwinds: that keep still belongs to the failing evaluation - nothing is committed."""
    from ..harness import proc

    own = scratch is None
    scratch = scratch or common.Scratch("vf-c10")
    root_dir, store_dir = scratch.sub(), scratch.sub()
    clause = "finally" if case["finally"] == "finally" else "except BaseException"
    src = FINALLY_SRC.format(clause=clause, reraise="" if case["finally"] == "finally" else "\n        raise")
    for rel, content in {"pk/__init__.py": "", "pk/m0.py": src}.items():
        p = os.path.join(root_dir, rel)
        os.makedirs(os.path.dirname(p), exist_ok=True)
        open(p, "w").write(content)
    w = proc.Worker()
    tag = f"[keep inside a {clause} clause while {case['exc']} unwinds, {case['store'][0]}, extra_debug={'off' if case['no_debug'] else 'default'}]"
    paths = ["/fin/inner", "/fin/cleanup", "/fin/mid"]
    try:
        w.call("init", root=root_dir, accepted=["pk"], store={"kind": case["store"][0], "dir": store_dir, "cache": case["store"][1]})
        if case["no_debug"]:
            w.call("call", module="dds", func="set_option", args=["extra_debug", False])
        r = w.call("eval", module="pk.m0", func="pipeline", style="eval", fail={"node": "inner", "exc": case["exc"]})
        if r["exc"] is None:
            raise Violation(f"{tag} inner raised but the evaluation returned {r['value']!r}", case)
        if not r["exc"]["same_object"]:
            raise Violation(f"{tag} another object came out of dds: {r['exc']['type']}: {r['exc']['msg'][:200]}", case)
        if not r["ctx_clean"]:
            raise Violation(f"{tag} dds is still inside an evaluation after the failure", case)
        if r.get("synced"):
            raise Violation(f"{tag} paths were committed although the evaluation failed: {[list(d) for d in r['synced']]}", case)
        for p in paths:
            l = w.call("load", path=p)
            if l["exc"] is None:
                raise Violation(f"{tag} after the failed evaluation the path {p} loads {l['value']!r} (it was committed)", case)
        r = w.call("eval", module="pk.m0", func="pipeline", style="eval")
        if r["exc"] is not None or r["value"] != "i":
            raise Violation(f"{tag} the evaluation after the failure gave {r['exc'] or r['value']!r}", case)
        if ev is not None:
            ev.case(case, True, features=["keep-while-unwinding:" + case["finally"], "exc:" + case["exc"]] + (["extra_debug-off"] if case["no_debug"] else []))
    finally:
        w.close()
        if own:
            scratch.clean()


def thread_strategy():
    from hypothesis import strategies as st

    return st.fixed_dictionaries({"threads": st.just(True), "exc": st.sampled_from(EXCS), "store": st.sampled_from(STORES).map(list)})


def check_threads(case, ev=None, scratch=None):
    """Kept sub-results computed in worker threads (one after the other) of a function under evaluation belong to that evaluation:
    when a later function raises, none of the paths is committed; the repaired pipeline then runs normally."""
    from ..harness import proc

    own = scratch is None
    scratch = scratch or common.Scratch("vf-c10")
    root_dir, store_dir = scratch.sub(), scratch.sub()
    for rel, content in {"pk/__init__.py": "", "pk/m0.py": THREAD_SRC}.items():
        p = os.path.join(root_dir, rel)
        os.makedirs(os.path.dirname(p), exist_ok=True)
        open(p, "w").write(content)
    w = proc.Worker()
    tag = f"[keeps made from worker threads, {case['store'][0]}, {case['exc']}]"
    paths = ["/thr/left", "/thr/right", "/thr/check"]
    try:
        w.call("init", root=root_dir, accepted=["pk"], store={"kind": case["store"][0], "dir": store_dir, "cache": case["store"][1]})
        r = w.call("eval", module="pk.m0", func="pipeline", style="eval", fail={"node": "check", "exc": case["exc"]})
        if r["exc"] is None:
            raise Violation(f"{tag} check raised but the evaluation returned {r['value']!r}", case)
        if not r["exc"]["same_object"]:
            raise Violation(f"{tag} another object came out of dds: {r['exc']['type']}: {r['exc']['msg'][:200]}", case)
        if not r["ctx_clean"]:
            raise Violation(f"{tag} dds is still inside an evaluation after the failure", case)
        if r.get("synced"):
            raise Violation(f"{tag} paths were committed although the evaluation failed: {[list(d) for d in r['synced']]}", case)
        for p in paths:
            l = w.call("load", path=p)
            if l["exc"] is None:
                raise Violation(f"{tag} after the failed evaluation the path {p} loads {l['value']!r} (it was committed)", case)
        r = w.call("eval", module="pk.m0", func="pipeline", style="eval")
        if r["exc"] is not None or r["value"] != "left+right:checked":
            raise Violation(f"{tag} the evaluation after the failure gave {r['exc'] or r['value']!r}", case)
        for p, want in zip(paths, ("left", "right", "checked")):
            l = w.call("load", path=p)
            if l["exc"] is not None or l["value"] != want:
                raise Violation(f"{tag} after the successful evaluation the path {p} loads {l['exc'] or l['value']!r}", case)
        if ev is not None:
            ev.case(case, True, features=["keeps-from-worker-threads", "exc:" + case["exc"], "store:" + case["store"][0]])
    finally:
        w.close()
        if own:
            scratch.clean()


def shard(idx, n, tier, seed, count):
    ev = Ev()
    scratch = common.Scratch("vf-c10")
    opts = {"exclude": common.open_features(ID), "data_den": 2, "max_funcs": 8}
    try:
        v = common.hyp_drive(case_strategy(opts), lambda c: check_case(c, ev, scratch), seed * 1000 + 1000 + idx, count, ev)
        if v is None and idx % 4 == 1:
            v = common.hyp_drive(finally_strategy(), lambda c: check_finally(c, ev, scratch), seed * 1000 + 1070 + idx, 3 if tier == "quick" else 12, ev)
        if v is None and idx % 4 == 3:
            v = common.hyp_drive(thread_strategy(), lambda c: check_threads(c, ev, scratch), seed * 1000 + 1050 + idx, 3 if tier == "quick" else 12, ev)
    finally:
        scratch.clean()
    return ev, v


def run(tier, seed, scale=1.0):
    count = int((30 if tier == "quick" else 500) * scale)
    return common.run_shards(shard, 16, tier=tier, seed=seed, count=count)


def replay(case):
    if case.get("finally"):
        return check_finally(case)
    if case.get("threads"):
        return check_threads(case)
    check_case(case)
