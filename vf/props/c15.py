"""C15 - restricting the stages makes an evaluation a side-effect-free dry run.

Generated: PipeLang programs x stage lists (every prefix of the stage order, spelled as names in any case or
enum members) x store kinds x prior history (fresh store / after a full run of an older version).
Oracle: store traffic and directory diff per stage prefix; metamorphic: a later full evaluation returns the
same value, signatures and (for the analysis-only case) execution log whether or not the restricted run happened.
"""
import os

from .. import common
from ..common import Ev, Violation
from ..harness.session import Session
from ..pipelang import model as M
from ..pipelang import gen as G
from . import c01, c09, c10, c11

ID = "C15"
LEVEL = "exploration"
RULE = (
    "Hypothesis-generated PipeLang programs x stage list = prefix of [analysis, store_inspect, eval, store_commit, "
    "path_commit] of length 0..5 spelled as lower/upper/mixed-case names or ProcessingStage members x store {memory, local, "
    "local+LRU} x history {fresh store, after a full evaluation of an earlier version of the program, restricted run "
    "repeated twice, after a restricted run of the same process that asked for more stages}; in one case in four a tracked variable is assigned in the "
    "running process between the restricted run and the later full evaluation; one case in six is a pipeline that loads a path produced by an earlier evaluation, and in some runs that include "
    "the eval stage a user function raises (preferably after other kept work has completed). Checked: whatever the store kind, every kept "
    "path serves through dds.load exactly what it served before a run without 'path_commit';  prefixes without 'eval' run no user code, store no blob, commit no path, leave the store "
    "directories byte-identical and return None; prefixes with 'eval' but without 'path_commit' commit no path and leave the "
    "data directory unchanged; the signatures the restricted run reports and those of a later full run are equal to the "
    "ones of a twin history without the restricted run, the later full run returns the same value and (analysis-only) "
    "executes the same functions. Non-trivial = the program has >=2 kept nodes and the store was populated by an earlier "
    "version before the restricted run; distinct by (program, stages, history)."
)
ASSUMPTIONS = ["the stage order is the one of ProcessingStage.all_phases(); only prefixes are valid stage lists"]

STAGES = ["analysis", "store_inspect", "eval", "store_commit", "path_commit"]
STORES = [("memory", None), ("local", None), ("local-lru", 2)]


def case_strategy(opts):
    from hypothesis import strategies as st

    @st.composite
    def gen(draw):
        pre_entry = None
        if draw(st.integers(0, 5)) == 0:
            # a pipeline that loads a path produced by an earlier evaluation (the producer is evaluated first)
            spec = [draw(st.sampled_from(["root", "helper", "kept", "kept", "kept_helper", "kept_inline_arg"])), "earlier_eval",
                    draw(st.sampled_from(["data", "keepcall"])), draw(st.integers(0, 3)), draw(st.booleans())]
            prog, root, pre_entry, _rk = c09.build(*spec)
        else:
            prog = draw(G.programs(opts))
            ents = [e for e in G.entries(prog) if e[1] == "eval"]
            root = draw(st.sampled_from(ents[-2:] if len(ents) > 1 else ents))[0]
        n = draw(st.sampled_from([0, 1, 1, 2, 2, 3, 3, 4, 4, 5]))
        spell = draw(st.sampled_from(["lower", "upper", "mixed", "enum"]))
        kind, cache = draw(st.sampled_from(STORES))
        history = draw(st.sampled_from(["fresh", "after_old", "after_old", "twice", "after_longer", "orphan_blobs"]))
        old = prog
        for _ in range(draw(st.integers(1, 2))):
            old = M.apply_edit(old, draw(G.edits(old, root, kinds=["setvar", "bump", "setlit"], opts=opts)))
        case = {"prog": prog, "old": old, "root": root, "nstages": n, "spell": spell, "store": [kind, cache], "history": history}
        if pre_entry is None and prog["vars"] and draw(st.integers(0, 3)) == 0:
            # between the restricted run and the later full evaluation a tracked variable is assigned in the running process
            # (no module is reloaded: every function object stays the same)
            case["live_edit"] = draw(G.edits(prog, root, kinds=["setvar"], opts=opts))
        if pre_entry is not None and draw(st.booleans()):
            # the PRODUCER of the loaded path is edited and evaluated without the path_commit stage; the reader is then evaluated in full:
            # it must still read what the path serves (the content committed before)
            case["restrict_producer"] = True
            case["nstages"] = draw(st.sampled_from([3, 4]))
            case["history"] = "fresh"
        if pre_entry is not None:
            case["pre_entry"] = pre_entry
        elif n in (3, 4) and draw(st.integers(0, 2)) == 0:
            # a user function raises during the restricted run (preferably after other kept work has completed)
            _, it = M.expected_value(prog, root)
            names = list(dict.fromkeys(x for x in it.executed if not x.endswith(".m")))
            good = [nm for nm in names if all(c10.completed_before_failure(prog, root, nm) or (None, None))]
            case["fail"] = {"node": draw(st.sampled_from(good or names)), "exc": draw(st.sampled_from(["ValueError", "KeyError", "KeyboardInterrupt", "CustomError"]))}
        return case

    return gen()


def spell_stages(n, spell):
    names = STAGES[:n]
    if spell == "lower":
        return names
    if spell == "upper":
        return [s.upper() for s in names]
    if spell == "mixed":
        return [s.title() if i % 2 else s.upper() for i, s in enumerate(names)]
    return [{"$stage": s} for s in names]


def _decode_stages(stages):
    """runs in the worker: turn {'$stage': name} into ProcessingStage members"""
    from dds.structures import ProcessingStage

    return [ProcessingStage[s["$stage"].upper()] if isinstance(s, dict) else s for s in stages]


def eval_with_stages(sess, root, stages, fail=None):
    f = sess.prog["funcs"][root]
    return sess.w.call("call", module="vf.props.c15", func="_eval_stages",
                       args=[M.modname(sess.prog, f["mod"]), f["name"], stages, fail])


def _eval_stages(module, func, stages, fail=None):
    from ..harness import worker

    return worker.cmd_eval(module, func, "eval", opts={"dds_stages": _decode_stages(stages)}, fail=fail)


def path_state(sess, paths):
    """what every path serves, through the public API (the only view of the paths of a memory store)"""
    out = {}
    for p in paths:
        r = sess.load(p)
        out[p] = ("value", r["value"]) if r["exc"] is None else ("absent",)
    return out


def fresh_full(case):
    return case["store"][0] in ("local", "local-lru") and not case.get("live_edit") and not case.get("restrict_producer") and case["nstages"] % 2 == 1


def run_history(case, scratch, with_restricted):
    kind, cache = case["store"]
    sess = Session(scratch, kind, cache)
    out = {}
    try:
        prog, root = case["prog"], case["root"]
        pre = case.get("pre_entry")

        def produce(p):
            if pre is not None:
                r0 = sess.eval(pre, "direct" if M.is_data(p["funcs"][pre]) else "eval")
                if r0["exc"] is not None:
                    raise Violation(f"evaluating the producer raised {r0['exc']['type']}: {r0['exc']['msg'][:200]}", case)

        if case["history"] in ("after_old", "twice", "orphan_blobs"):
            sess.write(case["old"])
            sess.start()
            produce(case["old"])
            r = sess.eval(root, "eval")
            if r["exc"] is not None:
                raise Violation(f"full evaluation of the earlier version raised {r['exc']['type']}: {r['exc']['msg'][:200]}", case)
            if case["history"] == "orphan_blobs" and kind != "memory":
                # every blob loses its metadata (what a writer killed between its two renames leaves behind)
                import glob

                for m_ in glob.glob(os.path.join(sess.store_dir, "internal", "blobs", "*.meta")):
                    os.remove(m_)
                sess.restart()
            sess.inproc_edit(prog)
        else:
            sess.write(prog)
            sess.start()
        produce(prog)
        if case["history"] == "after_longer":
            # an earlier restricted evaluation of the same process asked for MORE stages (everything but the path commit)
            r = eval_with_stages(sess, root, STAGES[:4])
            if r["exc"] is not None:
                raise Violation(f"restricted evaluation {STAGES[:4]} raised {r['exc']['type']}: {r['exc']['msg'][:200]}", case)
        stages = spell_stages(case["nstages"], case["spell"])
        all_paths = sorted({s_["path"] for p_ in (prog, case["old"]) for s_ in M.kept_sites(p_, root)} | ({"/src/v"} if pre is not None else set()))
        if case.get("restrict_producer"):
            prog_p = M.apply_edit(prog, ["setvar", 0, 7])
            sess.inproc_edit(prog_p)
            if with_restricted:
                paths_before = path_state(sess, all_paths)
                f_ = prog_p["funcs"][pre]
                r = sess.w.call("call", module="vf.props.c15", func="_eval_stages", args=[M.modname(prog_p, f_["mod"]), f_["name"], stages, None])
                if r["exc"] is not None:
                    raise Violation(f"evaluating the edited producer with stages {stages} raised {r['exc']['type']}: {r['exc']['msg'][:200]}", case)
                changed = sorted(p for p in all_paths if paths_before.get(p) != path_state(sess, all_paths).get(p))
                if changed or r["synced"]:
                    raise Violation(f"stages={stages}: evaluating the edited producer without path_commit changed what {changed or [list(d) for d in r['synced']]} serve", case)
                out["restricted"] = r
        elif with_restricted:
            reps = 2 if case["history"] == "twice" else 1
            for rep in range(reps):
                before = c11.snapshot(sess.store_dir)
                data_before = c11.snapshot(os.path.join(sess.store_dir, "data"))
                paths_before = path_state(sess, all_paths) if kind != "noop" else {}
                if not case.get("fail"):
                    committed_ = {}
                    if pre is not None:
                        committed_ = dict(M.expected_value(prog, pre)[1].kept)
                    out["expected_restricted"] = M.expected_value(prog, root, committed=committed_)[0]
                r = eval_with_stages(sess, root, stages, case.get("fail"))
                after = c11.snapshot(sess.store_dir)
                data_after = c11.snapshot(os.path.join(sess.store_dir, "data"))
                paths_after = path_state(sess, all_paths) if kind != "noop" else {}
                out["restricted"] = r
                out["dirs_unchanged"] = before == after
                out["data_unchanged"] = data_before == data_after
                out["paths_changed"] = sorted(p for p in all_paths if paths_before.get(p) != paths_after.get(p))
                judge_restricted(case, r, out, rep)
        if case.get("live_edit"):
            cur = M.apply_edit(prog, case["live_edit"])
            v = cur["vars"][case["live_edit"][1]]
            sess.write(cur)
            sess.w.call("call", module="vf.harness.worker", func="cmd_setvar", args=[M.modname(cur, v["mod"]), v["name"], M.dec(v["val"])])
        if fresh_full(case):
            sess.restart()   # the later full evaluation is made by another process: it only sees what reached the store
        full = sess.eval(root, "eval")
        out["full"] = full
        out["loads"] = {}
        if kind != "noop":
            for p in sorted(full.get("sigs", {})):
                out["loads"][p] = sess.load(p)["value"]
    finally:
        sess.close()
    return out


def judge_restricted(case, r, out, rep):
    n = case["nstages"]
    what = f"stages={spell_stages(n, case['spell'])} history={case['history']} store={case['store']} (run {rep})"
    if r["exc"] is not None and not (case.get("fail") and n >= 3 and r["exc"].get("same_object")):
        raise Violation(f"{what}: restricted evaluation raised {r['exc']['type']}: {r['exc']['msg'][:300]}", case)
    if r["exc"] is not None:
        what += f" ({case['fail']['node']} raised {case['fail']['exc']})"
    # (after `orphan_blobs` a run that includes the eval stage legitimately re-stores blobs that committed links point to:
    #  what those paths *load* changes although no path is committed - only the dry runs are compared there)
    if n < 5 and out.get("paths_changed") and not (case["history"] == "orphan_blobs" and n >= 3):
        raise Violation(f"{what}: the paths {out['paths_changed']} serve something else (or appeared / disappeared) after an evaluation that did not request the path_commit stage", case)
    if n < 3:  # EVAL not requested: dry run
        if r["log"]:
            raise Violation(f"{what}: user functions ran in an evaluation restricted to the analysis stage: {r['log']}", case)
        if r["stored"] or r["synced"]:
            raise Violation(f"{what}: analysis-only evaluation wrote to the store (blobs {len(r['stored'])}, path commits {len(r['synced'])})", case)
        if not out["dirs_unchanged"]:
            raise Violation(f"{what}: analysis-only evaluation changed the store directories", case)
        if r["value"] is not None:
            raise Violation(f"{what}: analysis-only evaluation returned {r['value']!r}", case)
    if n >= 3 and r["exc"] is None and "expected_restricted" in out and r["value"] != out["expected_restricted"]:
        raise Violation(f"{what}: the evaluation includes the eval stage but returned {r['value']!r}, expected {out['expected_restricted']!r}", case)
    if n < 3:
        pass
    elif n < 5:  # EVAL without PATH_COMMIT
        if r["synced"]:
            raise Violation(f"{what}: paths were committed although the path_commit stage was not requested: {[list(d) for d in r['synced']]}", case)
        if not out["data_unchanged"]:
            raise Violation(f"{what}: the data directory changed although the path_commit stage was not requested", case)


def check_case(case, ev=None, scratch=None):
    own = scratch is None
    scratch = scratch or common.Scratch("vf-c15")
    try:
        a = run_history(case, scratch, with_restricted=True)
        b = run_history(case, scratch, with_restricted=False)
        what = f"stages={spell_stages(case['nstages'], case['spell'])} history={case['history']} store={case['store']}"
        for tag, o in (("with", a), ("without", b)):
            if o["full"]["exc"] is not None:
                raise Violation(f"{what}: the later full evaluation ({tag} the restricted run) raised {o['full']['exc']['type']}: {o['full']['exc']['msg'][:300]}", case)
        committed = {}
        if case.get("pre_entry") is not None:
            _, itp = M.expected_value(case["prog"], case["pre_entry"])
            committed = dict(itp.kept)
        final_prog = M.apply_edit(case["prog"], case["live_edit"]) if case.get("live_edit") else case["prog"]
        if case.get("restrict_producer"):
            final_prog = M.apply_edit(case["prog"], ["setvar", 0, 7])   # (what the path serves is still the content committed before the edit)
        exp, _ = M.expected_value(final_prog, case["root"], committed=committed)
        if a["full"]["value"] != exp:
            raise Violation(f"{what}: full evaluation after the restricted run returned {a['full']['value']!r}, expected {exp!r}", case)
        if a["full"]["sigs"] != b["full"]["sigs"]:
            raise Violation(f"{what}: signatures of the later full evaluation differ with / without the restricted run", case)
        if a["loads"] != b["loads"]:
            raise Violation(f"{what}: paths serve different values after the later full evaluation with / without the restricted run: {a['loads']} vs {b['loads']}", case)
        if case["nstages"] < 3 and a["full"]["log"] != b["full"]["log"]:
            raise Violation(f"{what}: the later full evaluation executed {a['full']['log']} after the dry run but {b['full']['log']} without it", case)
        if case["nstages"] >= 3:
            extra = [x for x in a["full"]["log"] if a["full"]["log"].count(x) > b["full"]["log"].count(x)]
            if extra:
                raise Violation(f"{what}: the later full evaluation re-executed {sorted(set(extra))} although the restricted run had stored them", case)
            ra = a.get("restricted")
            if (ra is not None and ra["exc"] is None and not case.get("fail") and not case.get("live_edit") and not case.get("restrict_producer")
                    and case["history"] != "orphan_blobs" and case["store"][0] != "noop"):
                # everything kept was computed and stored by the restricted run: the later full evaluation (by the same process or,
                # for file stores and odd stage counts, by a fresh one) only runs what an evaluation on a complete store runs
                idle = set(M.sim_log(final_prog, case["root"], lambda p: False))
                ran = [x for x in a["full"]["log"] if x not in idle]
                if ran:
                    raise Violation(f"{what}: the restricted run included the eval stage, yet the later full evaluation ({'fresh process' if fresh_full(case) else 'same process'}) executed the kept functions {sorted(set(ran))} again: their blobs did not reach the store", case)
        if ev is not None:
            sites = M.kept_sites(case["prog"], case["root"])
            ev.case({"stages": spell_stages(case["nstages"], case["spell"]), "history": case["history"], "store": case["store"],
                     "program": c01.slim({"prog": case["prog"], "store": None, "steps": []})["program"]},
                    len(sites) >= 2 and case["history"] != "fresh",
                    features=[f"nstages{case['nstages']}", "spell:" + case["spell"], "history:" + case["history"], "store:" + case["store"][0]]
                    + (["loads-earlier-path"] if case.get("pre_entry") is not None else []) + (["producer-evaluated-without-path-commit"] if case.get("restrict_producer") else []) + (["live-variable-edit-before-full-run"] if case.get("live_edit") else []) + (["user-failure-in-restricted-run"] if a.get("restricted", {}).get("exc") else []),
                    key=[M.pkey(case["prog"]), case["nstages"], case["spell"], case["history"], case["store"]])
    finally:
        if own:
            scratch.clean()


THREAD_SRC = """import dds
import threading
import vlog

VS = {vs}


def leaf():
    vlog.rec('leaf')
    return ('leaf', VS)


def helper(out):
    out.append(dds.keep('/c15/leaf', leaf))


def f():
    vlog.rec('f')
    out = []
    t = threading.Thread(target=helper, args=(out,))
    t.start()
    t.join()
    return ('f', out[0])
"""


def thread_strategy():
    from hypothesis import strategies as st

    return st.fixed_dictionaries({"thread_keep": st.just(True), "nstages": st.integers(1, 4), "spell": st.sampled_from(["lower", "upper", "enum"]),
                                  "store": st.sampled_from([["memory", None], ["local", None], ["local-lru", 2]]), "warm": st.booleans()})


def check_thread_keep(case, ev=None, scratch=None):
    """The evaluated function reaches its dds.keep from a worker thread it starts and joins: a restricted evaluation stays a dry
    run (nothing committed; nothing executed below the eval stage) and the later full evaluation gives the plain result."""
    from ..harness import proc

    own = scratch is None
    scratch = scratch or common.Scratch("vf-c15")
    root_dir, store_dir = scratch.sub(), scratch.sub()
    w = proc.Worker()
    n = case["nstages"]
    stages = spell_stages(n, case["spell"])
    what = f"[keep reached from a worker thread, stages={stages}, store={case['store'][0]}, warm={case['warm']}]"
    try:
        def write(vs):
            for rel, content in {"pk/__init__.py": "", "pk/m0.py": THREAD_SRC.format(vs=vs)}.items():
                pth = os.path.join(root_dir, rel)
                os.makedirs(os.path.dirname(pth), exist_ok=True)
                open(pth, "w").write(content)

        write(1)
        w.call("init", root=root_dir, accepted=["pk"], store={"kind": case["store"][0], "dir": store_dir, "cache": case["store"][1]})
        old = None
        if case["warm"]:
            r = w.call("eval", module="pk.m0", func="f", style="eval")
            if r["exc"] is not None or r["value"] != ("f", ("leaf", 1)):
                raise Violation(f"{what}: the full evaluation of the first version gave {r['exc'] or r['value']!r}", case)
            old = ("leaf", 1)
            w.call("call", module="vf.harness.worker", func="cmd_setvar", args=["pk.m0", "VS", 2])
        vs = 2 if case["warm"] else 1
        r = w.call("call", module="vf.props.c15", func="_eval_stages", args=["pk.m0", "f", stages, None])
        if r["exc"] is not None:
            raise Violation(f"{what}: restricted evaluation raised {r['exc']['type']}: {r['exc']['msg'][:300]}", case)
        ld = w.call("load", path="/c15/leaf")
        now = ld["value"] if ld["exc"] is None else None
        if now != old or r["synced"]:
            raise Violation(f"{what}: after an evaluation that did not request the path_commit stage /c15/leaf serves {now!r} (before: {old!r}; path commits seen: {[list(d) for d in r['synced']]})", case)
        if n < 3 and (r["log"] or r["stored"]):
            raise Violation(f"{what}: an evaluation restricted below the eval stage executed {r['log']} and stored {len(r['stored'])} blobs", case)
        r = w.call("eval", module="pk.m0", func="f", style="eval")
        if r["exc"] is not None or r["value"] != ("f", ("leaf", vs)):
            raise Violation(f"{what}: the later full evaluation gave {r['exc'] or r['value']!r}, expected {('f', ('leaf', vs))!r}", case)
        ld = w.call("load", path="/c15/leaf")
        if ld["exc"] is not None or ld["value"] != ("leaf", vs):
            raise Violation(f"{what}: after the full evaluation /c15/leaf serves {ld['exc'] or ld['value']!r}", case)
        if ev is not None:
            ev.case(case, True, features=["keep-from-worker-thread", f"nstages{n}", "store:" + case["store"][0]])
    finally:
        w.close()
        if own:
            scratch.clean()


def shard(idx, n, tier, seed, count):
    ev = Ev()
    scratch = common.Scratch("vf-c15")
    opts = {"exclude": common.open_features(ID)}
    try:
        v = common.hyp_drive(case_strategy(opts), lambda c: check_case(c, ev, scratch), seed * 1000 + 1500 + idx, count, ev)
        if v is None and idx % 4 == 0:
            v = common.hyp_drive(thread_strategy(), lambda c: check_thread_keep(c, ev, scratch), seed * 1000 + 1550 + idx, max(3, count // 6), ev)
    finally:
        scratch.clean()
    return ev, v


def run(tier, seed, scale=1.0):
    count = int((25 if tier == "quick" else 400) * scale)
    return common.run_shards(shard, 16, tier=tier, seed=seed, count=count)


def replay(case):
    if case.get("thread_keep"):
        return check_thread_keep(case)
    check_case(case)
