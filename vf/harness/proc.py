"""Fork-based workers: each Worker is one simulated Python process with its own dds state.

The driver (Hypothesis process) never touches dds state itself; it forks a child per simulated process.
Commands and results travel pickled over pipes.  RESTART = close the worker and fork a new one.
"""
import os
import pickle
import signal
import struct
import sys
import traceback


class WorkerDied(Exception):
    pass


def _send(fd, obj):
    data = pickle.dumps(obj, protocol=4)
    os.write(fd, struct.pack("!I", len(data)))
    view = memoryview(data)
    while view:
        n = os.write(fd, view)
        view = view[n:]


def _recv(fd):
    head = b""
    while len(head) < 4:
        chunk = os.read(fd, 4 - len(head))
        if not chunk:
            raise WorkerDied("pipe closed")
        head += chunk
    (n,) = struct.unpack("!I", head)
    buf = bytearray()
    while len(buf) < n:
        chunk = os.read(fd, min(65536, n - len(buf)))
        if not chunk:
            raise WorkerDied("pipe closed mid-message")
        buf += chunk
    return pickle.loads(bytes(buf))


class Worker(object):
    def __init__(self, cwd=None, env=None):
        c2p_r, c2p_w = os.pipe()
        p2c_r, p2c_w = os.pipe()
        sys.stdout.flush()
        sys.stderr.flush()
        pid = os.fork()
        if pid == 0:
            try:
                os.close(c2p_r)
                os.close(p2c_w)
                if cwd:
                    os.chdir(cwd)
                if env:
                    os.environ.update(env)
                from . import worker

                worker.serve(p2c_r, c2p_w)
            except BaseException:
                traceback.print_exc()
            finally:
                os._exit(0)
        os.close(c2p_w)
        os.close(p2c_r)
        self.pid = pid
        self._r = c2p_r
        self._w = p2c_w
        self.alive = True

    def call(self, name, **kw):
        if not self.alive:
            raise WorkerDied("worker closed")
        _send(self._w, (name, kw))
        status, payload = _recv(self._r)
        if status == "harness-error":
            from ..common import HarnessError

            raise HarnessError("worker command %s failed:\n%s" % (name, payload))
        return payload

    def close(self):
        if not self.alive:
            return
        self.alive = False
        try:
            _send(self._w, ("quit", {}))
        except OSError:
            pass
        for fd in (self._r, self._w):
            try:
                os.close(fd)
            except OSError:
                pass
        try:
            os.waitpid(self.pid, 0)
        except ChildProcessError:
            pass

    def kill(self):
        if self.alive:
            try:
                os.kill(self.pid, signal.SIGKILL)
            except ProcessLookupError:
                pass
            self.close()

    def __enter__(self):
        return self

    def __exit__(self, *a):
        self.close()
