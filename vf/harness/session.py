"""Driver-side session: a scratch program root, a store location and a sequence of worker processes."""
import os
import shutil

from . import proc
from ..pipelang import model as M


class Session(object):
    def __init__(self, scratch, store_kind="memory", cache=None, stub=False, cwd=None):
        self.root = scratch.sub()
        self.store_dir = scratch.sub()
        self.store_kind = store_kind
        self.cache = cache
        self.stub = stub
        self.cwd = cwd
        self.w = None
        self.mtime = 1600000000
        self.prog = None
        self.nworkers = 0

    # -- files
    def write(self, prog, via_worker=False):
        files = M.render(prog)
        self.mtime += 10
        old = set()
        pk = os.path.join(self.root, prog.get("pkg", M.PKG))
        if os.path.isdir(pk):
            old = {f"{prog.get('pkg', M.PKG)}/{n}" for n in os.listdir(pk) if n.endswith(".py")}
        if via_worker and self.w is not None:
            self.w.call("write_files", files=files, reload=False, mtime=self.mtime)
        else:
            for rel, content in files.items():
                p = os.path.join(self.root, rel)
                os.makedirs(os.path.dirname(p), exist_ok=True)
                with open(p, "w") as f:
                    f.write(content)
                os.utime(p, (self.mtime, self.mtime))
        for rel in old - set(files):
            try:
                os.remove(os.path.join(self.root, rel))
            except OSError:
                pass
        self.prog = prog

    def store_spec(self):
        return {"kind": self.store_kind, "dir": self.store_dir, "cache": self.cache}

    # -- processes
    def start(self):
        self.close()
        self.w = proc.Worker(cwd=self.cwd)
        self.nworkers += 1
        if self.stub:
            self.w.call("call", module="vf.harness.session", func="_install_stub")
        pkg = self.prog.get("pkg", M.PKG) if self.prog else M.PKG
        self.w.call("init", root=self.root, accepted=[pkg], store=None if self.stub else self.store_spec())
        return self.w

    def restart(self):
        return self.start()

    def inproc_edit(self, prog, fresh=False):
        """Rewrite the sources while the worker stays alive and reload all generated modules
        (fresh: forget the modules and import them again - names that were removed from the source disappear)."""
        self.write(prog, via_worker=True)
        pkg = prog.get("pkg", M.PKG)
        order = ["xt", "xt.util", pkg] + [f"{pkg}.{m}" for m in prog["mods"]]
        self.w.call("call", module="vf.harness.session", func="_reimport_fresh" if fresh else "_reload_present", args=[order])

    def eval(self, root, style="eval", args=(), kwargs=None, opts=None, path=None, fail=None):
        f = self.prog["funcs"][root]
        return self.w.call(
            "eval", module=M.modname(self.prog, f["mod"]), func=f["name"], style="plain" if self.stub else style,
            args=list(args), kwargs=kwargs or {}, opts=opts or {}, path=path, fail=fail,
        )

    def load(self, path):
        return self.w.call("load", path=path)

    def close(self):
        if self.w is not None:
            self.w.close()
            self.w = None

    def wipe_store(self):
        shutil.rmtree(self.store_dir, ignore_errors=True)
        os.makedirs(self.store_dir, exist_ok=True)


def _install_stub():
    import sys

    for n in [n for n in sys.modules if n == "dds" or n.startswith("dds.")]:
        del sys.modules[n]
    here = os.path.join(os.path.dirname(os.path.abspath(__file__)), "stubdds")
    sys.path.insert(0, here)
    import dds

    assert dds.__file__.startswith(here), dds.__file__
    return True


def _reimport_fresh(order):
    import importlib
    import linecache
    import sys

    importlib.invalidate_caches()
    linecache.checkcache()
    present = [n for n in order if n in sys.modules]
    for n in present:
        del sys.modules[n]
    for n in present:
        try:
            importlib.import_module(n)
        except ImportError:
            pass
    linecache.checkcache()
    return present


def _reload_present(order):
    import importlib
    import linecache
    import sys

    importlib.invalidate_caches()
    linecache.checkcache()
    done = []
    for n in order:
        if n in sys.modules:
            importlib.reload(sys.modules[n])
            done.append(n)
    # modules of the generated package that no longer exist on disk (renamed) are dropped
    linecache.checkcache()
    return done
