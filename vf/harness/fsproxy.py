"""File-system operation interposition for dds processes simulated by forked children (C06, C07).

Inside a child the names `os` and `open` *as seen by the dds modules that do I/O* are rebound to proxies at
run time (no hook is compiled into the repository).  Every call that is not in a small whitelist of pure
functions is an *operation boundary*: the child reports (operation, path) to the scheduler and blocks until it
is granted the step - or is SIGKILLed there.  Raw writes are split in two halves with a boundary in between
(torn writes); Python-level buffering stays the real one, so "completed system calls are durable, buffered
bytes die with the process" is modelled exactly.
"""
import io
import os
import struct
import sys

PURE_OS = {"getpid", "getcwd", "fspath", "sep", "pathsep", "linesep", "name", "environ", "getenv", "curdir", "pardir",
           "altsep", "extsep", "devnull", "PathLike", "fsencode", "fsdecode", "error", "strerror", "urandom", "times",
           "cpu_count", "getppid", "getuid", "getlogin", "umask", "O_RDONLY", "O_WRONLY", "O_CREAT", "O_EXCL", "O_RDWR", "O_TRUNC"}
PURE_PATH = {"join", "split", "basename", "dirname", "normpath", "abspath", "isabs", "splitext", "sep", "commonpath", "commonprefix",
             "relpath", "expanduser", "expandvars", "normcase", "splitdrive", "pardir", "curdir", "altsep", "extsep", "pathsep"}

MODULES = ["dds.store", "dds.codecs.builtins", "dds._lru_store", "dds._api", "dds.codecs.pandas", "dds.codec", "vf.harness.c06_codec"]


class Channel(object):
    """child side of the scheduler protocol"""

    def __init__(self, slot, report_fd, control_fd):
        self.slot, self.report_fd, self.control_fd = slot, report_fd, control_fd
        self.count = 0
        self.enabled = True

    def boundary(self, op, path=""):
        if not self.enabled:
            return
        self.count += 1
        msg = f"B|{op}|{path}".encode("utf-8", "replace")
        os.write(self.report_fd, struct.pack("!I", len(msg)) + msg)
        b = os.read(self.control_fd, 1)   # blocks until granted (or killed)
        if not b:
            os._exit(97)

    def done(self, payload):
        import pickle

        data = b"D|" + pickle.dumps(payload, protocol=4)
        os.write(self.report_fd, struct.pack("!I", len(data)) + data)


class ProxyPath(object):
    def __init__(self, ch):
        self._ch = ch

    def __getattr__(self, name):
        real = getattr(os.path, name)
        if name in PURE_PATH or not callable(real):
            return real

        def call(*a, **k):
            self._ch.boundary("path." + name, _p(a))
            return real(*a, **k)

        return call


class ProxyOS(object):
    def __init__(self, ch):
        self._ch = ch
        self.path = ProxyPath(ch)

    def makedirs(self, name, mode=0o777, exist_ok=False):
        """same contract as os.makedirs, one boundary per stat / mkdir"""
        head, tail = os.path.split(name)
        if not tail:
            head, tail = os.path.split(head)
        if head and tail:
            self._ch.boundary("path.exists", head)
            if not os.path.exists(head):
                try:
                    self.makedirs(head, exist_ok=exist_ok)
                except FileExistsError:
                    pass
        self._ch.boundary("mkdir", name)
        try:
            os.mkdir(name, mode)
        except OSError:
            self._ch.boundary("path.isdir", name)
            if not exist_ok or not os.path.isdir(name):
                raise

    def __getattr__(self, name):
        real = getattr(os, name)
        if name in PURE_OS or not callable(real):
            return real

        def call(*a, **k):
            self._ch.boundary(name, _p(a))
            return real(*a, **k)

        return call


def _p(a):
    return " ".join(str(x) for x in a[:2] if isinstance(x, (str, bytes, os.PathLike)))


class ProxyRaw(io.RawIOBase):
    def __init__(self, ch, path, mode):
        super().__init__()
        self._ch = ch
        self._path = str(path)
        self._raw = io.FileIO(path, mode)
        self._writing = "w" in mode or "a" in mode or "+" in mode or "x" in mode

    def readable(self):
        return self._raw.readable()

    def writable(self):
        return self._raw.writable()

    def seekable(self):
        return self._raw.seekable()

    def fileno(self):
        return self._raw.fileno()

    def readinto(self, b):
        self._ch.boundary("read", self._path)
        return self._raw.readinto(b)

    def write(self, b):
        b = bytes(b)
        half = len(b) // 2
        self._ch.boundary("write.1", self._path)
        n = 0
        if half:
            n += self._raw.write(b[:half])
            self._ch.boundary("write.2", self._path)
        n += self._raw.write(b[half:])
        return n

    def seek(self, *a):
        return self._raw.seek(*a)

    def tell(self):
        return self._raw.tell()

    def truncate(self, *a):
        return self._raw.truncate(*a)

    def close(self):
        if not self.closed:
            try:
                if self._writing:
                    self._ch.boundary("close", self._path)
            finally:
                self._raw.close()
                super().close()


def make_open(ch):
    def proxy_open(file, mode="r", *a, **k):
        ch.boundary("open:" + mode, str(file))
        if "b" not in mode:
            raw = ProxyRaw(ch, file, mode.replace("t", ""))
            buf = io.BufferedWriter(raw) if ("w" in mode or "a" in mode or "x" in mode) else io.BufferedReader(raw)
            return io.TextIOWrapper(buf, encoding=k.get("encoding"), newline=k.get("newline"))
        m = mode.replace("b", "")
        raw = ProxyRaw(ch, file, m)
        if "w" in m or "a" in m or "x" in m:
            return io.BufferedWriter(raw)
        return io.BufferedReader(raw)

    return proxy_open


def install(ch):
    """Rebind os / open in the dds modules that perform I/O (inside the child only)."""
    import importlib

    pos = ProxyOS(ch)
    popen = make_open(ch)
    done = []
    for name in MODULES:
        try:
            mod = importlib.import_module(name)
        except ImportError:
            continue
        if hasattr(mod, "os"):
            mod.os = pos
        mod.open = popen
        done.append(name)
    return done
