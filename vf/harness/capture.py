"""CaptureStore: a dds.Store that delegates to the store under test and records the traffic.

Installed with the documented `dds.set_store(obj)`; no dds internals are patched.
"""
from collections import OrderedDict


def make_capture(base):
    from dds.store import Store

    class CaptureStore(Store):
        def __init__(self, inner):
            self.inner = inner
            self.synced = []        # list of OrderedDict path->key, one per sync_paths call
            self.stored = []        # keys passed to store_blob
            self.fetched = []       # keys passed to fetch_blob
            self.has_calls = []

        def has_blob(self, key):
            r = self.inner.has_blob(key)
            self.has_calls.append((key, r))
            return r

        def fetch_blob(self, key):
            self.fetched.append(key)
            return self.inner.fetch_blob(key)

        def store_blob(self, key, blob, codec=None):
            self.stored.append(key)
            return self.inner.store_blob(key, blob, codec)

        def sync_paths(self, paths):
            self.synced.append(OrderedDict(paths))
            return self.inner.sync_paths(paths)

        def fetch_paths(self, paths):
            return self.inner.fetch_paths(paths)

        def codec_registry(self):
            return self.inner.codec_registry()

        def reset_log(self):
            self.synced, self.stored, self.fetched, self.has_calls = [], [], [], []

        def last_sigs(self):
            """path -> signature committed since the log was reset (how the commit is batched is not our business)"""
            out = {}
            for d in self.synced:
                out.update(d)
            return out

        def __repr__(self):
            return f"CaptureStore({self.inner!r})"

    return CaptureStore(base)
