"""A user type with a user codec of the generic kind (CodecProtocol): the local store lets such a codec write straight
into the final blob file, one write per row (the module's `open` is rebound by the FS proxy, so every write is a boundary)."""


class Table(object):
    def __init__(self, rows):
        self.rows = [str(r) for r in rows]

    def __eq__(self, o):
        return type(o) is Table and o.rows == self.rows

    def __hash__(self):
        return hash(tuple(self.rows))

    def __repr__(self):
        return f"Table({self.rows!r})"


def make_codec():
    from dds.structures import CodecProtocol, ProtocolRef
    from dds.structures_utils import SupportedTypeUtils as STU

    class TableCodec(CodecProtocol):
        def ref(self):
            return ProtocolRef("user.table")

        def handled_types(self):
            return [STU.from_type(Table)]

        def serialize_into(self, blob, loc):
            with open(str(loc), "wb") as f:
                f.write(("%d\n" % len(blob.rows)).encode())
                f.flush()
                for r in blob.rows:
                    f.write((r + "\n").encode())
                    f.flush()

        def deserialize_from(self, loc):
            with open(str(loc), "rb") as f:
                lines = f.read().decode().split("\n")
            return Table(lines[1:-1] if lines and lines[-1] == "" else lines[1:])

    return TableCodec()
