"""Controlled scheduler: runs N simulated dds processes (forked children with the FS proxy installed) one
file-system operation at a time, in the order given by a schedule, optionally SIGKILLing one of them at a
chosen operation boundary.  The schedule is a list of ints interpreted modulo the set of runnable children,
so every list is a valid schedule (shrinkable, replayable)."""
import os
import pickle
import select
import signal
import struct
import traceback

from . import fsproxy


class Child(object):
    def __init__(self, slot, fn):
        self.slot = slot
        rep_r, rep_w = os.pipe()
        ctl_r, ctl_w = os.pipe()
        pid = os.fork()
        if pid == 0:
            try:
                os.close(rep_r)
                os.close(ctl_w)
                ch = fsproxy.Channel(slot, rep_w, ctl_r)
                ch.boundary("start", "")
                fsproxy.install(ch)
                try:
                    res = ("ok", fn())
                except BaseException as e:  # noqa
                    code = getattr(e, "error_code", None)
                    res = ("exc", {"type": type(e).__name__, "msg": str(e)[:500], "code": None if code is None else code.name,
                                   "is_dds": type(e).__name__ == "DDSException", "tb": traceback.format_exc()[-1500:]})
                ch.enabled = False
                ch.done(res)
            except BaseException:
                traceback.print_exc()
            finally:
                os._exit(0)
        os.close(rep_w)
        os.close(ctl_r)
        self.pid = pid
        self.rep = rep_r
        self.ctl = ctl_w
        self.state = "running"   # running -> at_boundary -> running ... -> done | killed | blocked
        self.pending = None      # (op, path) the child is waiting to perform
        self.result = None
        self.nops = 0

    def _read_exact(self, n, timeout):
        buf = b""
        while len(buf) < n:
            r, _, _ = select.select([self.rep], [], [], timeout)
            if not r:
                return None
            chunk = os.read(self.rep, n - len(buf))
            if not chunk:
                return b""
            buf += chunk
        return buf

    def wait_report(self, timeout=20.0):
        """wait until the child reaches its next boundary or finishes"""
        head = self._read_exact(4, timeout)
        if head is None:
            self.state = "blocked"
            return
        if head == b"":
            self.state = "dead"
            return
        (n,) = struct.unpack("!I", head)
        body = self._read_exact(n, timeout)
        if body is None or body == b"":
            self.state = "dead"
            return
        if body[:2] == b"D|":
            self.result = pickle.loads(body[2:])
            self.state = "done"
        else:
            _, op, path = body.decode("utf-8", "replace").split("|", 2)
            self.pending = (op, path)
            self.state = "at_boundary"

    def grant(self):
        self.nops += 1
        self.state = "running"
        os.write(self.ctl, b"g")

    def kill(self):
        try:
            os.kill(self.pid, signal.SIGKILL)
        except ProcessLookupError:
            pass
        self.state = "killed"

    def reap(self):
        for fd in (self.rep, self.ctl):
            try:
                os.close(fd)
            except OSError:
                pass
        try:
            os.waitpid(self.pid, 0)
        except ChildProcessError:
            pass


def run(fns, schedule=None, kill=None, max_steps=20000):
    """fns: callables, one per simulated process.
    schedule: list of ints (and of strings "s<slot>" / "f<slot>"); at each step the child `runnable[schedule[t] % len(runnable)]` performs ONE operation;
              when the list is exhausted the lowest runnable child runs to completion, then the next one.
    kill: (slot, n): SIGKILL child `slot` when it is about to perform its n-th operation (0-based; the op does not happen).
    Returns dict(results=[...], trace=[(slot, op, path)...], killed=bool, blocked=[slots])."""
    children = [Child(i, fn) for i, fn in enumerate(fns)]
    trace = []
    killed = False
    try:
        for c in children:
            c.wait_report()
        t = 0
        steps = 0
        while steps < max_steps:
            runnable = [c for c in children if c.state == "at_boundary"]
            if not runnable:
                break
            if schedule is not None and t < len(schedule):
                e = schedule[t]
                if isinstance(e, str):
                    # "s<slot>": one operation of that child; "f<slot>": that child runs until it is done (both skipped
                    # when the child is not runnable any more)
                    c = next((x for x in runnable if x.slot == int(e[1:])), None)
                    if c is None:
                        t += 1
                        continue
                    if e[0] == "s":
                        t += 1
                else:
                    c = runnable[e % len(runnable)]
                    t += 1
            else:
                c = runnable[0]
            if kill is not None and c.slot == kill[0] and c.nops == kill[1]:
                trace.append((c.slot, "KILL-before:" + c.pending[0], c.pending[1]))
                c.kill()
                killed = True
                continue
            trace.append((c.slot, c.pending[0], c.pending[1]))
            c.grant()
            c.wait_report()
            steps += 1
        return {
            "results": [c.result if c.state == "done" else (c.state, None) for c in children],
            "trace": trace,
            "killed": killed,
            "blocked": [c.slot for c in children if c.state == "blocked"],
            "nops": [c.nops for c in children],
        }
    finally:
        for c in children:
            if c.state not in ("done", "killed", "dead"):
                c.kill()
            c.reap()


def run_plain(fn):
    """run fn in a forked child WITHOUT interposition (set-up, observer and recovery processes)"""
    r, w = os.pipe()
    pid = os.fork()
    if pid == 0:
        try:
            os.close(r)
            try:
                res = ("ok", fn())
            except BaseException as e:  # noqa
                code = getattr(e, "error_code", None)
                res = ("exc", {"type": type(e).__name__, "msg": str(e)[:500], "code": None if code is None else code.name,
                               "is_dds": type(e).__name__ == "DDSException", "tb": traceback.format_exc()[-1500:]})
            data = pickle.dumps(res, protocol=4)
            os.write(w, struct.pack("!I", len(data)))
            view = memoryview(data)
            while view:
                n = os.write(w, view)
                view = view[n:]
        except BaseException:
            traceback.print_exc()
        finally:
            os._exit(0)
    os.close(w)
    buf = b""
    while True:
        chunk = os.read(r, 65536)
        if not chunk:
            break
        buf += chunk
    os.close(r)
    os.waitpid(pid, 0)
    if len(buf) < 4:
        return ("dead", None)
    return pickle.loads(buf[4:])
