"""In-process fake of the four `dbutils.fs` calls DBFSStore uses (head, put, cp, rm).

Semantics follow the Databricks utilities documentation: head returns up to maxBytes of a *file* as str and
raises for a missing path or a directory; put writes a string (raises if the file exists and overwrite is
False) creating parent directories; cp copies a file (or a tree with recurse=True), creating parents and
overwriting; rm removes a file (or a tree with recurse=True).  `dbfs:/x` and `/x` name root/x; `file:/x`,
`file:///x` name the local path /x.  Fidelity to real DBFS is an assumption recorded in the evidence.
"""
import os
import shutil


class FakeFS(object):
    def __init__(self, root):
        self.root = os.path.abspath(root)
        os.makedirs(self.root, exist_ok=True)
        self.log = []
        self.fail_next = None   # (operation, substring of the destination): one-shot injected failure
        self.fail_puts = None   # [substring of the destination, number of consecutive put calls that still fail]

    def _resolve(self, p):
        p = str(p)
        if p.startswith("file:"):
            rest = p[len("file:"):]
            return "/" + rest.lstrip("/")
        if p.startswith("dbfs:"):
            p = p[len("dbfs:"):]
        return os.path.join(self.root, p.lstrip("/"))

    def head(self, file, maxBytes=65536):
        self.log.append(("head", file))
        lp = self._resolve(file)
        if not os.path.exists(lp):
            raise FileNotFoundError(f"java.io.FileNotFoundException: {file}")
        if os.path.isdir(lp):
            raise IsADirectoryError(f"java.lang.IllegalArgumentException: Cannot head a directory: {file}")
        with open(lp, "rb") as f:
            return f.read(maxBytes).decode("utf-8", errors="replace")

    def put(self, file, contents, overwrite=False):
        self.log.append(("put", file))
        if self.fail_puts and self.fail_puts[1] > 0 and self.fail_puts[0] in str(file):
            self.fail_puts[1] -= 1
            raise IOError(f"injected failure: put {file}")
        lp = self._resolve(file)
        if os.path.exists(lp) and not overwrite:
            raise FileExistsError(f"java.io.IOException: {file} already exists")
        os.makedirs(os.path.dirname(lp), exist_ok=True)
        with open(lp, "wb") as f:
            f.write(contents.encode("utf-8"))
        return True

    def cp(self, from_, to, recurse=False):
        self.log.append(("cp", from_, to))
        src, dst = self._resolve(from_), self._resolve(to)
        if self.fail_next and self.fail_next[0] == "cp" and self.fail_next[1] in str(to):
            self.fail_next = None
            raise IOError(f"injected failure: cp {from_} -> {to}")
        if not os.path.exists(src):
            raise FileNotFoundError(f"java.io.FileNotFoundException: {from_}")
        os.makedirs(os.path.dirname(dst), exist_ok=True)
        if os.path.isdir(src):
            if not recurse:
                raise IsADirectoryError(f"java.io.IOException: Cannot copy directory unless recurse is set to true: {from_}")
            if os.path.exists(dst):
                shutil.rmtree(dst) if os.path.isdir(dst) else os.remove(dst)
            shutil.copytree(src, dst)
        else:
            if os.path.isdir(dst):
                dst = os.path.join(dst, os.path.basename(src))
            shutil.copyfile(src, dst)
        return True

    def rm(self, dir, recurse=False):
        self.log.append(("rm", dir))
        lp = self._resolve(dir)
        if not os.path.exists(lp):
            return False
        if os.path.isdir(lp):
            if not recurse and os.listdir(lp):
                raise OSError(f"java.io.IOException: Cannot delete non-empty directory: {dir}")
            shutil.rmtree(lp)
        else:
            os.remove(lp)
        return True


class FakeDbutils(object):
    def __init__(self, root):
        self.fs = FakeFS(root)
