"""Code that runs inside a forked worker: one simulated Python process using the real dds."""
import importlib
import linecache
import os
import sys
import traceback

from . import proc

STATE = {}

VLOG_SRC = '''"""Execution log of generated code. Lives in a NON-accepted top-level module, so it enters
signatures only as a constant external name and never as a tracked value."""
LOG = []
FAIL = {}


def rec(name):
    LOG.append(name)
    exc = FAIL.get(name)
    if exc is not None:
        raise exc


def take():
    out = list(LOG)
    del LOG[:]
    return out
'''


def serve(rfd, wfd):
    from ..common import setup_paths, quiet_logging

    setup_paths()
    quiet_logging()
    while True:
        try:
            name, kw = proc._recv(rfd)
        except proc.WorkerDied:
            return
        if name == "quit":
            return
        try:
            res = COMMANDS[name](**kw)
            proc._send(wfd, ("ok", res))
        except BaseException:
            proc._send(wfd, ("harness-error", traceback.format_exc()))


# ---------------------------------------------------------------------------------------------------

def cmd_init(root, accepted, store=None, ipython=False):
    """root: directory with the generated packages; accepted: module names to accept."""
    import dds

    STATE["root"] = root
    STATE["modules"] = []
    if root not in sys.path:
        sys.path.insert(0, root)
    vl = os.path.join(root, "vlog.py")
    if not os.path.exists(vl):
        with open(vl, "w") as f:
            f.write(VLOG_SRC)
    importlib.invalidate_caches()
    for m in accepted:
        dds.accept_module(m)
    if store is not None:
        cmd_set_store(**store)
    return True


def cmd_set_store(kind, dir=None, cache=None, internal=None, data=None, raw=False, commit_type=None):
    import dds
    from .capture import make_capture

    if kind == "memory":
        dds.set_store("memory")
    elif kind == "noop":
        dds.set_store("noop")
    elif kind in ("local", "local-lru"):
        internal = internal or os.path.join(dir, "internal")
        data = data or os.path.join(dir, "data")
        dds.set_store("local", internal_dir=internal, data_dir=data, cache_objects=cache)
    elif kind == "dbfs":
        from .fakedbutils import FakeDbutils

        dbu = STATE.get("dbutils") if STATE.get("dbutils_dir") == dir else None
        if dbu is None:
            dbu = FakeDbutils(os.path.join(dir, "dbfsroot"))
        STATE["dbutils"] = dbu
        STATE["dbutils_dir"] = dir
        dds.set_store("dbfs", internal_dir=internal or "dbfs:/internal", data_dir=data or "dbfs:/data",
                      dbutils=dbu, commit_type=commit_type, cache_objects=cache)
    else:
        raise ValueError(kind)
    base = dds._api._store()
    if raw:
        STATE["cap"] = None
        return repr(base)
    cap = make_capture(base)
    dds.set_store(cap)
    STATE["cap"] = cap
    return repr(base)


def _exc_info(e):
    from dds import DDSException

    code = getattr(e, "error_code", None)
    return {
        "type": type(e).__name__,
        "is_dds": isinstance(e, DDSException),
        "code": None if code is None else code.name,
        "msg": str(e)[:600],
        "id": id(e),
    }


def cmd_eval(module, func, style="eval", args=(), kwargs=None, opts=None, path=None, fail=None):
    """Run one evaluation; returns value / exception, execution log, captured store traffic."""
    import dds
    import vlog

    kwargs = kwargs or {}
    opts = opts or {}
    mod = importlib.import_module(module)
    if mod.__name__ not in STATE["modules"]:
        STATE["modules"].append(mod.__name__)
    f = getattr(mod, func)
    cap = STATE.get("cap")
    if cap is not None:
        cap.reset_log()
    vlog.take()
    vlog.FAIL.clear()
    injected = None
    if fail:
        injected = _make_exc(fail["exc"])
        vlog.FAIL[fail["node"]] = injected
    out = {"value": None, "exc": None}
    try:
        if style == "eval":
            out["value"] = dds.eval(f, *args, **opts, **kwargs)
        elif style == "direct":
            out["value"] = f(*args, **kwargs)
        elif style == "keep":
            out["value"] = dds.keep(path, f, *args, **kwargs)
        elif style == "plain":  # no dds involved at the entry (used with the stub)
            out["value"] = f(*args, **kwargs)
        else:
            raise ValueError(style)
    except BaseException as e:
        out["exc"] = _exc_info(e)
        out["exc"]["same_object"] = injected is not None and e is injected
        out["exc"]["tb_tail"] = traceback.format_exc()[-1500:]
    vlog.FAIL.clear()
    out["log"] = vlog.take()
    out["ctx_clean"] = getattr(getattr(dds, "_api", None), "_eval_ctx", None) is None
    if cap is not None:
        out["synced"] = [dict(d) for d in cap.synced if d]   # a sync_paths call without paths commits nothing
        out["sigs"] = cap.last_sigs()
        out["stored"] = list(cap.stored)
        out["fetched"] = list(cap.fetched)
    return out


class CustomError(Exception):
    pass


def _make_exc(name):
    import dds

    if name.endswith(":empty"):
        # an exception without any message (bare `assert`, `raise ValueError()`, Ctrl-C)
        return {"AssertionError": AssertionError, "ValueError": ValueError, "KeyboardInterrupt": KeyboardInterrupt}[name.split(":")[0]]()

    table = {
        "ValueError": ValueError, "KeyError": KeyError, "CustomError": CustomError,
        "KeyboardInterrupt": KeyboardInterrupt, "SystemExit": SystemExit, "GeneratorExit": GeneratorExit,
        "DDSException": dds.DDSException, "AssertionError": AssertionError, "MemoryError": MemoryError,
    }
    return table[name]("injected " + name)


def cmd_load(path):
    import dds

    try:
        return {"value": dds.load(path), "exc": None}
    except BaseException as e:
        return {"value": None, "exc": _exc_info(e)}


def cmd_write_files(files, reload=True, mtime=None):
    """Rewrite generated sources while the process stays alive, then reload every generated module in
    dependency order (so `from m import f` bindings are fresh - the reference semantics assumes that)."""
    root = STATE["root"]
    for rel, content in files.items():
        p = os.path.join(root, rel)
        os.makedirs(os.path.dirname(p), exist_ok=True)
        with open(p, "w") as f:
            f.write(content)
        if mtime is not None:
            os.utime(p, (mtime, mtime))
    importlib.invalidate_caches()
    linecache.checkcache()
    if reload:
        cmd_reload()
    return True


def cmd_reload(order=None):
    names = order or sorted(
        [n for n, m in sys.modules.items()
         if m is not None and getattr(m, "__file__", None) and str(m.__file__).startswith(STATE["root"]) and n != "vlog"],
        key=_mod_rank,
    )
    for n in names:
        importlib.reload(sys.modules[n])
    linecache.checkcache()
    return names


def _mod_rank(name):
    # packages first, then modules in name order: generated modules import only lower-numbered ones
    return (name.count("."), len(name), name)


def cmd_setvar(module, name, value):
    mod = importlib.import_module(module)
    setattr(mod, name, value)
    return True


def cmd_chdir(path):
    os.chdir(path)
    return os.getcwd()


def cmd_call(module, func, args=(), kwargs=None):
    """Call an arbitrary helper (used by property-specific harness modules)."""
    mod = importlib.import_module(module)
    return getattr(mod, func)(*args, **(kwargs or {}))


def cmd_accepted():
    from dds.introspect import _accepted_packages

    return sorted(_accepted_packages)


# ---- notebook location: the code lives in IPython cells -------------------------------------------------

def cmd_ipy_init(root, store=None):
    """an in-process IPython shell: functions and classes defined in cells live in __main__"""
    import dds
    from IPython.core.interactiveshell import InteractiveShell

    if root not in sys.path:
        sys.path.insert(0, root)
    vl = os.path.join(root, "vlog.py")
    if not os.path.exists(vl):
        with open(vl, "w") as f:
            f.write(VLOG_SRC)
    importlib.invalidate_caches()
    STATE["root"] = root
    STATE["modules"] = []
    STATE["shell"] = InteractiveShell.instance()
    if store is not None:
        cmd_set_store(**store)
    return True


def cmd_ipy_cell(src):
    sh = STATE["shell"]
    r = sh.run_cell(src, store_history=True, silent=True)
    err = r.error_before_exec or r.error_in_exec
    if err is not None:
        raise err
    return True


def cmd_ipy_eval(func, style="eval"):
    """evaluate a function defined in a cell, through a cell (as a user would)"""
    import dds
    import vlog

    sh = STATE["shell"]
    cap = STATE.get("cap")
    if cap is not None:
        cap.reset_log()
    vlog.take()
    out = {"value": None, "exc": None}
    src = f"__vf_result = dds.eval({func})" if style == "eval" else f"__vf_result = {func}()"
    r = sh.run_cell(src, store_history=True, silent=True)
    err = r.error_before_exec or r.error_in_exec
    if err is not None:
        out["exc"] = _exc_info(err)
        out["exc"]["same_object"] = False
        out["exc"]["tb_tail"] = "".join(traceback.format_exception(type(err), err, err.__traceback__))[-1500:]
    else:
        out["value"] = sh.user_ns.get("__vf_result")
    out["log"] = vlog.take()
    out["ctx_clean"] = dds._api._eval_ctx is None
    if cap is not None:
        out["synced"] = [dict(d) for d in cap.synced if d]   # a sync_paths call without paths commits nothing
        out["sigs"] = cap.last_sigs()
        out["stored"] = list(cap.stored)
        out["fetched"] = list(cap.fetched)
    return out


COMMANDS = {
    "ipy_init": cmd_ipy_init,
    "ipy_cell": cmd_ipy_cell,
    "ipy_eval": cmd_ipy_eval,
    "init": cmd_init,
    "set_store": cmd_set_store,
    "eval": cmd_eval,
    "load": cmd_load,
    "write_files": cmd_write_files,
    "reload": cmd_reload,
    "setvar": cmd_setvar,
    "chdir": cmd_chdir,
    "call": cmd_call,
    "accepted": cmd_accepted,
}
