"""One-shot subprocess runner (a *real* fresh interpreter: used when PYTHONHASHSEED or the way the
process is started is the varied dimension).  Reads a JSON job on stdin, prints a JSON result.

job = {"root": dir, "accepted": [...], "store": {...}, "cwd": dir|None,
       "evals": [{"module":..., "func":..., "style":..., "opts": {...}}]}
"""
import json
import os
import sys


def main():
    job = json.loads(sys.stdin.read())
    from vf.harness import worker

    from vf.common import setup_paths, quiet_logging

    setup_paths()
    quiet_logging()
    if job.get("cwd"):
        os.chdir(job["cwd"])
    worker.cmd_init(job["root"], job["accepted"], job.get("store"))
    out = []
    for e in job["evals"]:
        r = worker.cmd_eval(e["module"], e["func"], e.get("style", "eval"), opts=e.get("opts"))
        out.append({"sigs": r.get("sigs", {}), "value": repr(r["value"]), "exc": r["exc"] and {k: r["exc"][k] for k in ("type", "msg")},
                    "log": r["log"]})
    sys.stdout.write(json.dumps({"results": out, "hashseed": os.environ.get("PYTHONHASHSEED")}))


if __name__ == "__main__":
    main()
