"""User types and codecs for C17 (importable by the forked workers)."""
USE_LOG = []


class Moon(object):
    def __init__(self, n):
        self.n = n

    def __eq__(self, o):
        return type(o) is Moon and o.n == self.n

    def __hash__(self):
        return hash(("Moon", self.n))

    def __repr__(self):
        return f"Moon({self.n!r})"


class Sun(object):
    def __init__(self, n):
        self.n = n

    def __eq__(self, o):
        return type(o) is Sun and o.n == self.n

    def __hash__(self):
        return hash(("Sun", self.n))

    def __repr__(self):
        return f"Sun({self.n!r})"


class Galaxy(object):
    """a user type whose (generic) codec writes a DIRECTORY of part files at the location it is given"""

    def __init__(self, n):
        self.n = n

    def __eq__(self, o):
        return type(o) is Galaxy and o.n == self.n

    def __hash__(self):
        return hash(("Galaxy", self.n))

    def __repr__(self):
        return f"Galaxy({self.n!r})"


class TaggedStr(str):
    """a subclass of a builtin result type with state of its own (no codec handles it: it is pickled)"""

    def __new__(cls, text, tag=None):
        o = super().__new__(cls, text)
        o.tag = tag
        return o

    def __reduce__(self):
        return (TaggedStr, (str(self), self.tag))


class TaggedBytes(bytes):
    def __new__(cls, data, tag=None):
        o = super().__new__(cls, data)
        o.tag = tag
        return o

    def __reduce__(self):
        return (TaggedBytes, (bytes(self), self.tag))


def make_codecs():
    from dds.structures import FileCodecProtocol, CodecProtocol, ProtocolRef
    from dds.structures_utils import SupportedTypeUtils as STU
    from dds.codecs.builtins import StringLocalFileCodec

    class MoonFileCodec(FileCodecProtocol):
        def ref(self):
            return ProtocolRef("user.moon_file")

        def handled_types(self):
            return [STU.from_type(Moon)]

        def serialize_into(self, blob, loc):
            USE_LOG.append(("ser", "user.moon_file"))
            with open(str(loc), "wb") as f:
                f.write(("moon:%d" % blob.n).encode())

        def deserialize_from(self, loc):
            USE_LOG.append(("de", "user.moon_file"))
            with open(str(loc), "rb") as f:
                return Moon(int(f.read().decode().split(":")[1]))

    class SunCodec(CodecProtocol):
        def ref(self):
            return ProtocolRef("user.sun")

        def handled_types(self):
            return [STU.from_type(Sun)]

        def serialize_into(self, blob, loc):
            USE_LOG.append(("ser", "user.sun"))
            with open(str(loc), "wb") as f:
                f.write(("sun=%d" % blob.n).encode())

        def deserialize_from(self, loc):
            USE_LOG.append(("de", "user.sun"))
            with open(str(loc), "rb") as f:
                return Sun(int(f.read().decode().split("=")[1]))

    class GalaxyPartsCodec(CodecProtocol):
        def ref(self):
            return ProtocolRef("user.galaxy_parts")

        def handled_types(self):
            return [STU.from_type(Galaxy)]

        def serialize_into(self, blob, loc):
            import os

            USE_LOG.append(("ser", "user.galaxy_parts"))
            os.makedirs(str(loc), exist_ok=True)
            for i, piece in enumerate(("galaxy", str(blob.n))):
                with open(os.path.join(str(loc), f"part-{i}"), "w") as f:
                    f.write(piece)

        def deserialize_from(self, loc):
            import os

            USE_LOG.append(("de", "user.galaxy_parts"))
            with open(os.path.join(str(loc), "part-1")) as f:
                return Galaxy(int(f.read()))

    class AltMoonFileCodec(FileCodecProtocol):
        """another codec for the same type with another reference and another format"""

        def ref(self):
            return ProtocolRef("user.moon_alt")

        def handled_types(self):
            return [STU.from_type(Moon)]

        def serialize_into(self, blob, loc):
            USE_LOG.append(("ser", "user.moon_alt"))
            with open(str(loc), "wb") as f:
                f.write(("ALT%d" % (blob.n + 1000)).encode())

        def deserialize_from(self, loc):
            USE_LOG.append(("de", "user.moon_alt"))
            with open(str(loc), "rb") as f:
                return Moon(int(f.read().decode()[3:]) - 1000)

    class AltStrCodec(CodecProtocol):
        """takes over str for NEW writes (codecs have precedence over file codecs); stores reversed text"""

        def ref(self):
            return ProtocolRef("user.altstr")

        def handled_types(self):
            return [STU.from_type(str)]

        def serialize_into(self, blob, loc):
            USE_LOG.append(("ser", "user.altstr"))
            with open(str(loc), "wb") as f:
                f.write(blob[::-1].encode("utf-8"))

        def deserialize_from(self, loc):
            USE_LOG.append(("de", "user.altstr"))
            with open(str(loc), "rb") as f:
                return f.read().decode("utf-8")[::-1]

    class ShoutingStringCodec(StringLocalFileCodec):
        """inherits the reference 'local.string' of the builtin codec but decodes differently"""

        def deserialize_from(self, loc):
            USE_LOG.append(("de", "shouting"))
            return ("SHOUT:" + super().deserialize_from(loc)).upper()

    class OtherTypeFileCodec(FileCodecProtocol):
        def ref(self):
            return ProtocolRef("user.other")

        def handled_types(self):
            return [STU.from_type(frozenset)]

        def serialize_into(self, blob, loc):
            with open(str(loc), "wb") as f:
                f.write(repr(sorted(blob)).encode())

        def deserialize_from(self, loc):
            import ast

            with open(str(loc), "rb") as f:
                return frozenset(ast.literal_eval(f.read().decode()))

    return {"galaxy": GalaxyPartsCodec(), "moon": MoonFileCodec(), "sun": SunCodec(), "moon_alt": AltMoonFileCodec(), "altstr": AltStrCodec(),
            "shout": ShoutingStringCodec(), "other": OtherTypeFileCodec()}


def register(store, name, codecs):
    reg = store.codec_registry()
    c = codecs[name]
    from dds.structures import CodecProtocol

    if isinstance(c, CodecProtocol):
        reg.add_codec(c)
    else:
        reg.add_file_codec(c)
