"""dds-free stub used to cross-check the reference interpreter against real Python:
keep = call, data_function = wrapper that records the path, eval = call, load = dict lookup."""
import functools

KEPT = {}
COMMITTED = {}


class DDSException(BaseException):
    pass


def keep(path, fun, *args, **kwargs):
    v = fun(*args, **kwargs)
    KEPT[str(path)] = v
    return v


def eval(fun, *args, dds_export_graph=None, dds_extra_debug=None, dds_stages=None, **kwargs):
    return fun(*args, **kwargs)


def load(path):
    p = str(path)
    if p in KEPT:
        return KEPT[p]
    if p in COMMITTED:
        return COMMITTED[p]
    raise DDSException("missing path " + p)


def data_function(path):
    def deco(f):
        @functools.wraps(f)
        def wrapper(*a, **k):
            v = f(*a, **k)
            KEPT[str(path)] = v
            return v
        return wrapper
    return deco


dds_function = data_function


def accept_module(m):
    pass


def set_store(*a, **k):
    pass
