"""Run a pinned corpus program (subprocess): python -m vf.harness.corpus_run <progdir> [store-kind]

Prints JSON: {"steps": [{"sigs": {path: sig}, "value": repr}, ...]}
"""
import importlib
import json
import os
import sys


def main():
    from vf import common

    common.setup_paths()
    common.quiet_logging()
    prog = os.path.abspath(sys.argv[1])
    kind = sys.argv[2] if len(sys.argv) > 2 else "memory"
    sys.path.insert(0, prog)
    import dds
    from vf.harness.capture import make_capture

    dds.accept_module("cpk")
    if kind == "memory":
        from dds.store import MemoryStore

        base = MemoryStore()
    else:
        from dds.store import LocalFileStore

        d = sys.argv[3]
        base = LocalFileStore(os.path.join(d, "internal"), os.path.join(d, "data"))
    cap = make_capture(base)
    dds.set_store(cap)
    plan = json.load(open(os.path.join(prog, "plan.json")))
    steps = []
    for st in plan:
        modname, fname = st["call"].split(":")
        mod = importlib.import_module(modname)
        f = getattr(mod, fname)
        cap.reset_log()
        opts = st.get("opts", {})
        if st["style"] == "eval":
            val = dds.eval(f, *st.get("args", []), **opts)
        elif st["style"] == "direct":
            val = f()
        elif st["style"] == "keep":
            val = dds.keep(st["path"], f, *st.get("args", []), **st.get("kwargs", {}))
        else:
            raise ValueError(st["style"])
        steps.append({"sigs": cap.last_sigs(), "value": repr(val)})
    sys.stdout.write(json.dumps({"steps": steps}, sort_keys=True))


if __name__ == "__main__":
    main()
