"""Hypothesis strategies for PipeLang programs and edits (construction, not rejection)."""
import collections
import pathlib

from hypothesis import strategies as st

from ..jsonval import enc, dec
from . import model as M
from .model import NO

# pairwise different under the documented identifications (list = tuple, bool = int, dict = list of pairs, path = its
# text): a variable that moves between two identified values (e.g. () -> 5 -> []) is legitimately served the stored
# result of the first one, which is not what plain execution returns
VAR_VALUES = [
    2, 3, 7, -3, 2 ** 40, 0.5, 2.0, "", "s", "é|x", True, False, (1, 2), [], [1, "a"], {"k": 1, "j": [2]},
    collections.OrderedDict([("o", 1)]), pathlib.PurePosixPath("a/b"), [[1], {"z": 0.5}],
]
# no booleans here: True/1 and False/0 are documented as the same argument value (bool = int), so a result
# computed for f(0) is legitimately served for f(False) - visible when results are rendered as text
LIT_VALUES = [0, 1, 2, 5, "", "x", "yy", None, 1.5, 0.0]
PATH_SHAPES = ["/p{n}", "/dir/p{n}", "/dir/sub/p{n}", "/dir2/p{n}", "/dir/sub/deep/p{n}"]


def canon_key(v):
    from ..props.c05 import canon
    import json

    return json.dumps(canon(v), sort_keys=True)


def _assert_pool_distinct():
    for pool in (VAR_VALUES, LIT_VALUES):
        keys = [canon_key(v) for v in pool]
        assert len(set(keys)) == len(keys), "generator pools must be pairwise distinct under the documented identifications"


def _var_pool(opts):
    vals = list(VAR_VALUES)
    if "bool-tuple-var" in opts.get("exclude", ()):
        vals = [v for v in vals if not isinstance(v, (bool, tuple))]
    return vals


@st.composite
def programs(draw, opts=None):
    """opts: dict(max_funcs, loads(bool), rt(bool), classes(bool), multiline(bool), exclude=set of feature tags)"""
    opts = dict(opts or {})
    # shapes excluded because of an OPEN known finding of C01 are excluded for every user of the generator
    from .. import common as _common

    opts["exclude"] = set(opts.get("exclude", ())) | _common.open_features("C01")
    _assert_pool_distinct()
    nmods = draw(st.integers(1, opts.get("max_mods", 3)))
    force = opts.get("force_motif")
    nfuncs = draw(st.integers(4 if force else 2, max(4, opts.get("max_funcs", 7))))
    prog = {"pkg": M.PKG, "mods": [f"m{i}" for i in range(nmods)], "vars": [], "funcs": [], "classes": [],
            "ext": {"ev": 1, "ver": 0, "pad": 0}, "layout": {}}
    vpool = _var_pool(opts)
    for vi in range(draw(st.integers(0, 5))):
        # names are unique per module only: the same global name in two modules is a case of its own
        vm = draw(st.integers(0, nmods - 1))
        # ("x" and "y" are also the names of the parameters of the generated functions, "format" the name of a builtin: a global may be shadowed by a parameter)
        free = [n for n in ("VA", "VB", "VC", "x", "y", "format") if not any(v["mod"] == vm and v["name"] == n for v in prog["vars"])]
        if not free:
            continue
        prog["vars"].append({"name": draw(st.sampled_from(free)), "mod": vm, "val": enc(draw(st.sampled_from(vpool)))})
    unique = set()       # functions that may be referenced at most once
    referenced = set()
    npath = [0]
    mod = 0
    class_at = draw(st.integers(1, nfuncs)) if opts.get("classes", True) and draw(st.booleans()) else None

    def new_path():
        npath[0] += 1
        return draw(st.sampled_from(PATH_SHAPES)).format(n=npath[0])

    def pick_callee(i, pred):
        cands = [j for j in range(i) if pred(j) and not (j in unique and j in referenced)]
        if not cands:
            return None
        return draw(st.sampled_from(cands))

    def gen_args(callee, nlocs, here_params, keep, inline_cands=()):
        args = []
        rt = False
        for (pname, dflt) in callee["params"]:
            choices = ["lit"]
            if dflt != NO:
                choices.append("omit")
            if opts.get("rt", True) and nlocs > 0:
                choices.append("loc")
            if opts.get("rt", True) and here_params:
                choices.append("par")
            if opts.get("nested_args") and inline_cands:
                choices.append("icall")     # a call written inside the argument list (for a keep: a run-time argument)
            c = draw(st.sampled_from(choices))
            sp = draw(st.sampled_from(["pos", "kw"]))
            if c == "icall":
                j = draw(st.sampled_from(inline_cands))
                args.append(["icall", j, draw(st.sampled_from(M.FORMS)), sp])
                referenced.add(j)
                rt = True
                continue
            if c == "lit":
                args.append(["lit", enc(draw(st.sampled_from(LIT_VALUES))), sp])
            elif c == "omit":
                args.append(["omit"])
            elif c == "loc":
                args.append(["loc", draw(st.integers(0, nlocs - 1)), sp])
                rt = True
            else:
                args.append(["par", draw(st.sampled_from(here_params)), sp])
                rt = True
        return args, rt

    def gen_body(i, here_mod, here_params, allow_keep=True, maxlen=4):
        body = []
        is_unique = False
        n = draw(st.integers(0, maxlen))
        for k in range(n):
            kinds = ["ext"]
            attr_vars = "var-through-module-attribute" not in opts.get("exclude", ())

            def readable(v):
                # a bare read of a global that carries the name of a parameter would read the parameter
                return (v["mod"] == here_mod and v["name"] not in here_params) or (attr_vars and v["mod"] < here_mod)

            if any(readable(v) for v in prog["vars"]):
                kinds += ["var", "var"]
            if opts.get("comp", True) and any(v["mod"] == here_mod and v["name"] not in here_params for v in prog["vars"]):
                kinds.append("comp")
            if i > 0:
                kinds += ["call", "call", "ho"]
                if allow_keep:
                    kinds += ["keep", "keep"]
            if prog["classes"] and prog["classes"][0]["mod"] <= here_mod and allow_keep:
                kinds.append("cls")
            kind = draw(st.sampled_from(kinds))
            if kind == "var":
                vi = draw(st.sampled_from([vi for vi, v in enumerate(prog["vars"]) if readable(v)]))
                if prog["vars"][vi]["mod"] != here_mod:
                    nm_ = prog["vars"][vi]["name"]
                    clash = nm_ in here_params or any(v["mod"] == here_mod and v["name"] == nm_ for v in prog["vars"])
                    body.append(["var", vi, "modattr_local" if (not clash and draw(st.integers(0, 2)) == 0) else "modattr"])
                else:
                    body.append(["var", vi, "method"] if draw(st.integers(0, 3)) == 0 else ["var", vi])
            elif kind == "comp":
                body.append(["comp", draw(st.sampled_from([vi for vi, v in enumerate(prog["vars"]) if v["mod"] == here_mod and v["name"] not in here_params]))])
            elif kind == "ext":
                body.append(["ext", draw(st.integers(0, 2))])
            elif kind == "call":
                j = pick_callee(i, lambda j: True)
                if j is None:
                    body.append(["ext", 0])
                    continue
                callee = prog["funcs"][j]
                # functions that may be called inline in an argument: zero-argument callable, not 'unique'
                inl = [q for q in range(i) if q not in unique and all(d != NO for _, d in prog["funcs"][q]["params"])]
                args, _rt = gen_args(callee, len(body), here_params, keep=False, inline_cands=inl) if not M.is_data(callee) else ([], False)
                body.append(["call", j, draw(st.sampled_from(M.FORMS)), args])
                referenced.add(j)
                if j in unique:
                    is_unique = True
            elif kind == "ho":
                j = pick_callee(i, lambda j: all(d != NO for _, d in prog["funcs"][j]["params"]))
                if j is None:
                    body.append(["ext", 1])
                    continue
                ho_forms = ["bare", "alias"] if "ho-through-module-attribute" in opts.get("exclude", ()) else ["bare", "alias", "modattr", "fullattr", "modalias"]
                body.append(["ho", j, draw(st.sampled_from(ho_forms))])
                referenced.add(j)
                if j in unique:
                    is_unique = True
            elif kind == "keep":
                j = pick_callee(i, lambda j: not M.is_data(prog["funcs"][j]))
                if j is None:
                    body.append(["ext", 2])
                    continue
                callee = prog["funcs"][j]
                inl = [q for q in range(i) if q != j and q not in unique and all(d != NO for _, d in prog["funcs"][q]["params"])]
                args, rt = gen_args(callee, len(body), here_params, keep=True, inline_cands=inl)
                stt = ["keep", new_path(), j, draw(st.sampled_from(["bare", "alias"])), args]
                if opts.get("multiline", True) and draw(st.integers(0, 3)) == 0:
                    stt.append("multiline")
                body.append(stt)
                referenced.add(j)
                if rt or j in unique:
                    is_unique = True
            elif kind == "cls":
                body.append(["cls", 0, enc(draw(st.sampled_from([1, "c", 2.5])))])
        return body, is_unique

    motif = None
    motif2 = []
    if force != 2 and opts.get("motifs", True) and nfuncs >= 3 and (force == 1 or draw(st.integers(0, 3)) == 0):
        # planted shape: helper H(x=<default>) passes its parameter to a keep; the root calls H with an explicit argument
        prog["funcs"].append({"name": "f0", "mod": 0, "params": [["x", NO]], "ver": 0, "pad": 0, "data": None, "body": [["ext", 0]]})
        hb = [["keep", new_path(), 0, "bare", [["par", "x"]]]]
        if draw(st.booleans()):
            hb.insert(0, ["ext", 1])
        prog["funcs"].append({"name": "f1", "mod": 0, "params": [["x", enc(draw(st.sampled_from(LIT_VALUES)))]], "ver": 0, "pad": 0, "data": None, "body": hb})
        unique.add(1)
        referenced.add(0)
        motif = 1
    elif opts.get("motifs", True) and nfuncs >= 4 and (force == 2 or draw(st.integers(0, 5)) == 0):
        # planted shape: a plain helper with one run-time argument and one parameter left at its default, reached from two
        # kept functions of which only the first reads a tracked variable
        v0 = [vi for vi, v in enumerate(prog["vars"]) if v["mod"] == 0]
        if not v0:
            prog["vars"].append({"name": "VA", "mod": 0, "val": enc(draw(st.sampled_from(vpool)))})
            v0 = [len(prog["vars"]) - 1]
        prog["funcs"].append({"name": "f0", "mod": 0, "params": [["x", NO], ["y", enc(draw(st.sampled_from(LIT_VALUES)))]], "ver": 0, "pad": 0,
                              "data": None, "body": [["ext", 0]]})
        shared_call = ["call", 0, "bare", [["loc", 0, "pos"], ["omit"]]]
        prog["funcs"].append({"name": "f1", "mod": 0, "params": [], "ver": 0, "pad": 0, "data": new_path(),
                              "body": [["var", draw(st.sampled_from(v0))], [x if not isinstance(x, list) else [list(a) for a in x] for x in shared_call]]})
        prog["funcs"].append({"name": "f2", "mod": 0, "params": [], "ver": 0, "pad": 0, "data": new_path(),
                              "body": [["ext", 1], [x if not isinstance(x, list) else [list(a) for a in x] for x in shared_call]]})
        referenced.add(0)
        motif2 = [1, 2]
    elif opts.get("motifs", True) and nfuncs >= 3 and nmods >= 2 and (force == 3 or draw(st.integers(0, 5)) == 0):
        # planted shape: the same global name in two modules, each read by a function of its own module in one evaluation
        names = [n for n in ("VA", "VB", "VC") if not any(v["mod"] in (0, 1) and v["name"] == n for v in prog["vars"])]
        if names:
            nm = draw(st.sampled_from(names))
            two = draw(st.lists(st.sampled_from(vpool), min_size=2, max_size=2, unique_by=canon_key))
            for m_, val in zip((0, 1), two):
                prog["vars"].append({"name": nm, "mod": m_, "val": enc(val)})
                prog["funcs"].append({"name": f"f{m_}", "mod": m_, "params": [], "ver": 0, "pad": 0,
                                      "data": new_path() if draw(st.booleans()) else None, "body": [["var", len(prog["vars"]) - 1]]})
            mod = 1
            motif2 = [0, 1]
    for i in range(len(prog["funcs"]), nfuncs):
        if class_at == i and not prog["classes"]:
            cbody, cuniq = gen_body(i, mod, [], allow_keep=False, maxlen=2)
            prog["classes"].append({"name": "C0", "mod": mod, "ver": 0, "pad": 0, "body": cbody})
        if mod < nmods - 1 and draw(st.integers(0, 2)) == 0:
            mod += 1
        last = i == nfuncs - 1
        data = draw(st.integers(0, opts.get("data_den", 3) - 1)) == 0
        params = []
        if not data:
            for pi in range(draw(st.integers(0, 2))):
                has_default = draw(st.booleans()) or last
                params.append([["x", "y"][pi], enc(draw(st.sampled_from(LIT_VALUES))) if has_default else NO])
            # python: parameters without default cannot follow parameters with default
            params.sort(key=lambda p: p[1] != NO)
            for pi, p in enumerate(params):
                p[0] = ["x", "y"][pi]
        f = {"name": f"f{i}", "mod": mod, "params": params, "ver": 0, "pad": 0,
             "data": new_path() if data else None, "body": []}
        if opts.get("rets"):
            f["ret"] = draw(st.sampled_from(["tuple", "tuple", "text", "bytes", "none"]))
        if opts.get("indent", True) and draw(st.integers(0, 3)) == 0:
            f["ind"] = draw(st.integers(0, 1))
        prog["funcs"].append(f)
        body, is_unique = gen_body(i, mod, [p for p, _ in params])
        if last and motif is not None and motif not in referenced:
            sp = draw(st.sampled_from(["pos", "kw"]))
            marg = [["lit", enc(draw(st.sampled_from(LIT_VALUES))), sp]] if draw(st.booleans()) else [["omit"]]
            body.insert(0, ["call", motif, draw(st.sampled_from(M.FORMS)), marg])
            for stt in body[1:]:   # local result indices shift by one
                for a in (stt[4] if stt[0] == "keep" else (stt[3] if stt[0] == "call" and len(stt) > 3 else [])):
                    if a[0] == "loc":
                        a[1] += 1
            referenced.add(motif)
            is_unique = True
        if last and motif2:
            ins = [["call", j, draw(st.sampled_from(M.FORMS)), []] for j in motif2 if j not in referenced]
            if draw(st.booleans()):
                ins.reverse()
            for stt in body:   # local result indices shift
                for a in (stt[4] if stt[0] == "keep" else (stt[3] if stt[0] == "call" and len(stt) > 3 else [])):
                    if a[0] == "loc":
                        a[1] += len(ins)
            body[0:0] = ins
            referenced.update(motif2)
        f["body"] = body
        if is_unique and not data:
            unique.add(i)
    return prog


def entries(prog):
    """(root index, style) pairs that are valid entry points"""
    out = []
    for i, f in enumerate(prog["funcs"]):
        if all(d != NO for _, d in f["params"]):
            out.append((i, "eval"))
            if M.is_data(f):
                out.append((i, "direct"))
    return out


@st.composite
def edits(draw, prog, root, kinds=None, opts=None):
    """One model-level edit applicable to prog; returns the JSON edit."""
    opts = opts or {}
    cl = M.closure(prog, root)
    kinds = kinds or ["setvar", "bump", "pad", "setlit", "unrelated", "reorder", "ext_pad", "bumpcls", "rename_fun", "indent", "tcomment"]
    avail = []
    vpool = _var_pool(opts)
    for k in kinds:
        if k == "setvar" and prog["vars"]:
            avail.append(k)
        elif k in ("bump", "pad", "rename_fun", "tcomment"):
            avail.append(k)
        elif k == "indent" and any("ind" in f for f in prog["funcs"]):
            avail.append(k)
        elif k == "setlit" and _lit_sites(prog):
            avail.append(k)
        elif k == "bumpcls" and prog["classes"]:
            avail.append(k)
        elif k in ("unrelated", "reorder", "ext_pad", "ext_val", "ext_ver", "rename_mod"):
            avail.append(k)
    k = draw(st.sampled_from(avail))
    if k == "setvar":
        # prefer variables inside the closure of the root (a cache hit would then be wrong)
        inside = sorted(cl["v"])
        # variables whose NAME occurs in the reachable code without being read (comprehension variables): editing them must change nothing
        near = sorted({stt[1] for fi_ in cl["f"] for stt in prog["funcs"][fi_]["body"] if stt[0] == "comp"} - set(inside))
        if near and draw(st.integers(0, 3)) == 0:
            vi = draw(st.sampled_from(near))
        else:
            vi = draw(st.sampled_from(inside)) if inside and draw(st.integers(0, 3)) else draw(st.integers(0, len(prog["vars"]) - 1))
        cur = canon_key(dec(prog["vars"][vi]["val"]))
        cands = [v for v in vpool if canon_key(v) != cur]
        return ["setvar", vi, enc(draw(st.sampled_from(cands)))]
    if k == "indent":
        cands = [i for i, f in enumerate(prog["funcs"]) if "ind" in f]
        inside = [i for i in cands if i in cl["f"]]
        return ["indent", draw(st.sampled_from(inside if inside and draw(st.integers(0, 3)) else cands))]
    if k == "rename_fun":
        inside = sorted(cl["f"])
        fi = draw(st.sampled_from(inside)) if draw(st.integers(0, 3)) else draw(st.integers(0, len(prog["funcs"]) - 1))
        return ["rename_fun", fi, prog["funcs"][fi]["name"] + "r"]
    if k in ("bump", "pad", "tcomment"):
        inside = sorted(cl["f"])
        fi = draw(st.sampled_from(inside)) if draw(st.integers(0, 3)) else draw(st.integers(0, len(prog["funcs"]) - 1))
        return [k, fi]
    if k == "bumpcls":
        return ["bumpcls", 0]
    if k == "setlit":
        (fi, si, ai, cur) = draw(st.sampled_from(_lit_sites(prog)))
        cands = [v for v in LIT_VALUES if canon_key(v) != canon_key(dec(cur))]
        return ["setlit", fi, si, ai, enc(draw(st.sampled_from(cands)))]
    if k == "unrelated":
        return ["unrelated", draw(st.integers(0, len(prog["mods"]) - 1)), draw(st.integers(0, 6)), draw(st.sampled_from(["var", "fun", "comment"]))]
    if k == "reorder":
        return ["reorder", draw(st.integers(0, len(prog["mods"]) - 1)), draw(st.integers(1, 5000))]
    if k == "ext_val":
        return ["ext_val", draw(st.integers(2, 9))]
    if k == "rename_mod":
        mi = draw(st.integers(0, len(prog["mods"]) - 1))
        return ["rename_mod", mi, prog["mods"][mi] + "r"]
    return [k]


def _lit_sites(prog):
    out = []
    for fi, f in enumerate(prog["funcs"]):
        for si, stt in enumerate(f["body"]):
            args = stt[4] if stt[0] == "keep" else (stt[3] if stt[0] == "call" and len(stt) > 3 else [])
            for ai, a in enumerate(args):
                if a[0] == "lit":
                    out.append((fi, si, ai, a[1]))
    return out
