"""PipeLang: a JSON program model for generated dds pipelines.

A program is plain JSON (shrinks structurally, replays from a file), can be rendered to Python source,
interpreted by a dds-free reference interpreter, and edited by model-level operations.
See DESIGN.md 2.2 for the grounding of the supported subset.
"""
import copy
import json

from ..jsonval import enc, dec

NO = "<nodefault>"
PKG = "pk"
FORMS = ["bare", "alias", "modattr", "fullattr", "modalias"]


# ---------------------------------------------------------------------------------- helpers

def fmod(prog, fi):
    return prog["funcs"][fi]["mod"]


def modname(prog, mi):
    return f"{prog.get('pkg', PKG)}.{prog['mods'][mi]}"


def lit(v):
    import collections
    import pathlib

    if isinstance(v, collections.OrderedDict):
        return "OrderedDict(%r)" % (list(v.items()),)
    if isinstance(v, pathlib.PurePosixPath):
        return "PurePosixPath(%r)" % (str(v),)
    return repr(v)


def is_data(f):
    return f.get("data") is not None


def stmt_targets(st):
    """function indices referenced by a statement (the statement's own target first)"""
    if st[0] in ("call", "ho"):
        return [st[1]]
    if st[0] == "keep":
        return [st[2]]
    return []


def inline_args(st):
    """argument expressions that are themselves calls: ['icall', fi, form] / ['iload', path] (plain calls only)"""
    if st[0] == "call" and len(st) > 3:
        return [a for a in st[3] if a[0] in ("icall", "iload")]
    if st[0] == "keep":
        return [a for a in st[4] if a[0] in ("icall", "iload")]
    return []


def all_bodies(prog):
    for fi, f in enumerate(prog["funcs"]):
        yield ("f", fi, f["mod"], f["body"])
    for ci, c in enumerate(prog.get("classes", [])):
        yield ("c", ci, c["mod"], c["body"])


# ---------------------------------------------------------------------------------- rendering

def call_expr(prog, here_mod, fi, form):
    f = prog["funcs"][fi]
    if f["mod"] == here_mod or form == "bare":
        return f["name"]
    m = prog["mods"][f["mod"]]
    pkg = prog.get("pkg", PKG)
    if form == "alias":
        return f["name"] + "_al"
    if form == "modattr":
        return f"{m}.{f['name']}"
    if form == "fullattr":
        return f"{pkg}.{m}.{f['name']}"
    if form == "modalias":
        return f"{m}_al.{f['name']}"
    raise ValueError(form)


def import_line(prog, here_mod, fi, form):
    f = prog["funcs"][fi]
    if f["mod"] == here_mod:
        return None
    m = prog["mods"][f["mod"]]
    pkg = prog.get("pkg", PKG)
    if form == "bare":
        return f"from {pkg}.{m} import {f['name']}"
    if form == "alias":
        return f"from {pkg}.{m} import {f['name']} as {f['name']}_al"
    if form == "modattr":
        return f"from {pkg} import {m}"
    if form == "fullattr":
        return f"import {pkg}.{m}"
    if form == "modalias":
        return f"import {pkg}.{m} as {m}_al"
    raise ValueError(form)


def render_args(prog, callee, args, multiline=False, here_mod=None):
    """args aligned with callee params; each ['lit', enc, 'pos'|'kw'] | ['loc', k] | ['par', name] | ['omit']"""
    out = []
    kw_mode = False
    for (pname, _dflt), a in zip(callee["params"], args):
        if a[0] == "omit":
            kw_mode = True
            continue
        if a[0] == "lit":
            text = lit(dec(a[1]))
            if len(a) > 2 and a[2] == "kw":
                kw_mode = True
        elif a[0] == "loc":
            text = f"r{a[1]}"
            if len(a) > 2 and a[2] == "kw":
                kw_mode = True
        elif a[0] == "par":
            text = a[1]
            if len(a) > 2 and a[2] == "kw":
                kw_mode = True
        elif a[0] == "icall":
            text = call_expr(prog, here_mod, a[1], a[2]) + "()"
            if len(a) > 3 and a[3] == "kw":
                kw_mode = True
        elif a[0] == "iload":
            text = f"dds.load({a[1]!r})"
            if len(a) > 2 and a[2] == "kw":
                kw_mode = True
        else:
            raise ValueError(a)
        out.append(f"{pname}={text}" if kw_mode else text)
    return out


def pathvar_name(path):
    return "LP" + "".join(c if c.isalnum() else "_" for c in path)


def render_stmt(prog, here_mod, k, st, in_class=False):
    kind = st[0]
    if kind == "var":
        v = prog["vars"][st[1]]
        if len(st) > 2 and st[2] == "modattr_local" and v["mod"] != here_mod:
            # ... and bound to a local variable that carries the name of the attribute: VA = m0.VA
            return [f"{v['name']} = {prog['mods'][v['mod']]}.{v['name']}", f"r{k} = {v['name']}"]
        if len(st) > 2 and st[2] == "modattr" and v["mod"] != here_mod:
            return [f"r{k} = {prog['mods'][v['mod']]}.{v['name']}"]     # read through the module: m0.VA
        if len(st) > 2 and st[2] == "method":
            return [f"r{k} = {v['name']}.__str__()"]                     # read only through a method of the value
        return [f"r{k} = {v['name']}"]
    if kind == "ext":
        return [f"r{k} = xu.e{st[1]}()"]
    if kind == "call":
        callee = prog["funcs"][st[1]]
        args = render_args(prog, callee, st[3] if len(st) > 3 else [], here_mod=here_mod)
        return [f"r{k} = {call_expr(prog, here_mod, st[1], st[2])}({', '.join(args)})"]
    if kind == "ho":
        return [f"r{k} = xu.call0({call_expr(prog, here_mod, st[1], st[2])})"]
    if kind == "load":
        if len(st) > 2 and st[2] == "pathvar":
            return [f"r{k} = dds.load({pathvar_name(st[1])})"]     # the path is a module-level pathlib.Path constant
        return [f"r{k} = dds.load({st[1]!r})"]
    if kind == "cls":
        c = prog["classes"][st[1]]
        return [f"r{k} = {c['name']}({lit(dec(st[2]))}).m()"]
    if kind == "keep":
        callee = prog["funcs"][st[2]]
        args = render_args(prog, callee, st[4], here_mod=here_mod)
        head = [repr(st[1]), call_expr(prog, here_mod, st[2], st[3])]
        if len(st) > 5 and st[5] == "multiline" and args:
            lines = [f"r{k} = dds.keep(", f"    {head[0]}, {head[1]},"]
            for a in args:
                lines.append(f"    {a},")
            lines.append(")")
            return lines
        return [f"r{k} = dds.keep({', '.join(head + args)})"]
    if kind == "comp":
        # a comprehension whose loop variable carries the name of a module variable (which is NOT read)
        n = prog["vars"][st[1]]["name"]
        return [f"r{k} = [{n} for {n} in (1, 2)]"]
    raise ValueError(st)


def render_func(prog, fi):
    f = prog["funcs"][fi]
    params = ", ".join(p if d == NO else f"{p}={lit(dec(d))}" for p, d in f["params"])
    lines = []
    if is_data(f):
        lines.append(f"@dds.data_function({f['data']!r})")
    lines.append(f"def {f['name']}({params}):")
    # "tc": a comment at the end of an existing line (the text changes; line numbers and byte code do not)
    lines.append(f"    vlog.rec({f['name']!r})" + (f"  # tc {f['tc']}" if f.get("tc") else ""))
    for i in range(f.get("pad", 0)):
        lines.append(f"    # pad {i}")
    for k, st in enumerate(f["body"]):
        for ln in render_stmt(prog, f["mod"], k, st):
            lines.append("    " + ln)
    parts = [repr(f["name"]), str(f.get("ver", 0))] + [p for p, _ in f["params"]] + [f"r{k}" for k in range(len(f["body"]))]
    if "ind" in f:
        # a statement that is inside (1) or just after (0) a loop: the two versions differ by indentation only
        lines += ["    acc = 0", "    for _i in (0, 1):", "        acc += 1", ("        " if f["ind"] else "    ") + "acc += 10"]
        parts.append("acc")
    tup = f"({', '.join(parts)},)"
    if f.get("ret") == "text":
        lines.append(f"    return repr({tup})")
    elif f.get("ret") == "bytes":
        lines.append(f"    return repr({tup}).encode('utf-8')")
    elif f.get("ret") == "none":
        lines.append(f"    _unused = {tup}")
        lines.append("    return None")
    else:
        lines.append(f"    return {tup}")
    return lines


def render_class(prog, ci):
    c = prog["classes"][ci]
    lines = [f"class {c['name']}(object):", "    def __init__(self, v):", "        self.v = v", "", "    def m(self):"]
    lines.append(f"        vlog.rec({c['name'] + '.m'!r})")
    for i in range(c.get("pad", 0)):
        lines.append(f"        # pad {i}")
    for k, st in enumerate(c["body"]):
        for ln in render_stmt(prog, c["mod"], k, st, in_class=True):
            lines.append("        " + ln)
    parts = [repr(c["name"] + ".m"), str(c.get("ver", 0)), "self.v"] + [f"r{k}" for k in range(len(c["body"]))]
    lines.append(f"        return ({', '.join(parts)},)")
    return lines


def render_module(prog, mi, as_blocks=False):
    pkg = prog.get("pkg", PKG)
    lay = prog.get("layout", {}).get(str(mi), {})
    imports = ["import dds", "import vlog", "from xt import util as xu", "from collections import OrderedDict",
               "from pathlib import PurePosixPath"]
    for (_k, _i, m, body) in all_bodies(prog):
        if m != mi:
            continue
        for st in body:
            for fi in stmt_targets(st):
                form = st[2] if st[0] in ("call", "ho") else st[3]
                il = import_line(prog, mi, fi, form)
                if il and il not in imports:
                    imports.append(il)
            for a in inline_args(st):
                if a[0] == "icall":
                    il = import_line(prog, mi, a[1], a[2])
                    if il and il not in imports:
                        imports.append(il)
            if st[0] == "load" and len(st) > 2 and st[2] == "pathvar":
                for il in ("from pathlib import Path", f"{pathvar_name(st[1])} = Path({st[1]!r})"):
                    if il not in imports:
                        imports.append(il)
            if st[0] == "var" and len(st) > 2 and st[2] in ("modattr", "modattr_local") and prog["vars"][st[1]]["mod"] != mi:
                il = f"from {pkg} import {prog['mods'][prog['vars'][st[1]]['mod']]}"
                if il not in imports:
                    imports.append(il)
            if st[0] == "cls" and prog["classes"][st[1]]["mod"] != mi:
                c = prog["classes"][st[1]]
                il = f"from {pkg}.{prog['mods'][c['mod']]} import {c['name']}"
                if il not in imports:
                    imports.append(il)
    blocks = []
    for vi, v in enumerate(prog["vars"]):
        if v["mod"] == mi:
            blocks.append(("v", vi, [f"{v['name']} = {lit(dec(v['val']))}"]))
    for ci, c in enumerate(prog.get("classes", [])):
        if c["mod"] == mi:
            blocks.append(("c", ci, render_class(prog, ci)))
    for fi, f in enumerate(prog["funcs"]):
        if f["mod"] == mi:
            blocks.append(("f", fi, render_func(prog, fi)))
    # E5: definition order (python resolves names at call time, so any order of top-level defs is valid;
    # variables stay first because default values / decorators do not reference them)
    perm = lay.get("perm")
    if perm:
        vs = [b for b in blocks if b[0] == "v"]
        rest = [b for b in blocks if b[0] != "v"]
        rest = [rest[i % len(rest)] for i in _perm_indices(len(rest), perm)] if rest else rest
        blocks = vs + rest
    extra = lay.get("extra", [])  # E4: unrelated definitions: [position, kind, n]
    seq = []
    for bi, (k, i, lines) in enumerate(blocks):
        for (pos, kind, n) in extra:
            if pos == bi:
                seq.append(("u", n, _unrelated(kind, n)))
        seq.append((k, i, lines))
    for (pos, kind, n) in extra:
        if pos >= len(blocks):
            seq.append(("u", n, _unrelated(kind, n)))
    if as_blocks:
        return imports, seq
    out = list(imports) + ["", ""]
    for (_k, _i, lines) in seq:
        out += lines + ["", ""]
    return "\n".join(out)


def module_cells(prog, mi=0):
    """notebook rendering of a one-module program: the imports cell, then one cell per top-level definition"""
    imports, seq = render_module(prog, mi, as_blocks=True)
    return [("imports", 0, "\n".join(imports))] + [(k, i, "\n".join(lines)) for (k, i, lines) in seq]


def _perm_indices(n, seed):
    idx = list(range(n))
    # deterministic permutation from an int seed (no RNG): repeated rotation/swap
    s = seed
    for i in range(n - 1, 0, -1):
        j = s % (i + 1)
        s //= (i + 1)
        idx[i], idx[j] = idx[j], idx[i]
    return idx


def _unrelated(kind, n):
    if kind == "var":
        return [f"UNRELATED_{n} = {n}"]
    if kind == "comment":
        return [f"# unrelated comment {n}"]
    return [f"def unrelated_{n}():", f"    return {n}"]


def render_ext(prog):
    e = prog.get("ext", {})
    lines = ['"""non-accepted helper module"""', f"EV = {e.get('ev', 1)!r}", "", ""]
    for i in range(e.get("pad", 0)):
        lines.append(f"# ext pad {i}")
    for k in range(3):
        lines += [f"def e{k}():", f"    return ('e{k}', EV, {e.get('ver', 0)})", "", ""]
    lines += ["def call0(f):", "    return f()", ""]
    return "\n".join(lines)


def render(prog):
    pkg = prog.get("pkg", PKG)
    files = {f"{pkg}/__init__.py": "", "xt/__init__.py": "", "xt/util.py": render_ext(prog)}
    for mi, m in enumerate(prog["mods"]):
        files[f"{pkg}/{m}.py"] = render_module(prog, mi)
    return files


def render_main_script(prog, mi_last=True):
    """Single-file rendering for the `__main__` location (only programs with one module)."""
    assert len(prog["mods"]) == 1
    return render_module(prog, 0)


# ---------------------------------------------------------------------------------- reference interpreter

class MissingPath(Exception):
    pass


class InjectedFailure(Exception):
    pass


class Interp(object):
    """dds-free semantics: keep(path, f, a...) == f(a...), data function == its body, load == last value kept
    at the path in program order during this evaluation, else the committed one."""

    def __init__(self, prog, committed=None):
        self.prog = prog
        self.committed = dict(committed or {})
        self.kept = {}          # path -> value, this evaluation, program order
        self.kept_order = []
        self.executed = []
        self.fail_at = None     # function name whose first execution raises InjectedFailure (C10)
        self.stack = []         # kept paths currently being computed
        self.served = None      # predicate path -> the kept node is served from the store (its body does not run)

    def _quiet(self):
        """an interpreter that only computes values (used for nodes served from the store)"""
        q = Interp(self.prog, self.committed)
        q.kept = dict(self.kept)
        return q

    def bind(self, f, args):
        """args: list aligned with params of already evaluated values or NO (omitted)"""
        vals = []
        for (pname, dflt), a in zip(f["params"], args):
            if a is NO:
                if dflt == NO:
                    raise ValueError(f"missing argument {pname} for {f['name']}")
                vals.append(dec(dflt))
            else:
                vals.append(a)
        return vals

    def eval_args(self, f_here_params, locs, args):
        out = []
        for a in args:
            if a[0] == "omit":
                out.append(NO)
            elif a[0] == "lit":
                out.append(dec(a[1]))
            elif a[0] == "loc":
                out.append(locs[a[1]])
            elif a[0] == "par":
                out.append(f_here_params[a[1]])
            elif a[0] == "icall":
                callee = self.prog["funcs"][a[1]]
                out.append(self.call(a[1], [NO] * len(callee["params"])))
            elif a[0] == "iload":
                out.append(self.load(a[1]))
        return out

    def load(self, p):
        if p in self.kept:
            return self.kept[p]
        if p in self.committed:
            return self.committed[p]
        raise MissingPath(p)

    def run_body(self, body, params):
        locs = []
        for st in body:
            kind = st[0]
            if kind == "var":
                val = dec(self.prog["vars"][st[1]]["val"])
                locs.append(str(val) if len(st) > 2 and st[2] == "method" else val)
            elif kind == "ext":
                e = self.prog.get("ext", {})
                locs.append((f"e{st[1]}", e.get("ev", 1), e.get("ver", 0)))
            elif kind == "call":
                callee = self.prog["funcs"][st[1]]
                a = self.eval_args(params, locs, st[3] if len(st) > 3 else [])
                a += [NO] * (len(callee["params"]) - len(a))
                locs.append(self.call(st[1], a))
            elif kind == "ho":
                callee = self.prog["funcs"][st[1]]
                locs.append(self.call(st[1], [NO] * len(callee["params"])))
            elif kind == "keep":
                callee = self.prog["funcs"][st[2]]
                a = self.eval_args(params, locs, st[4])
                a += [NO] * (len(callee["params"]) - len(a))
                if self.served is not None and self.served(st[1]):
                    v = self._quiet().call(st[2], a, kept_inline=True)
                else:
                    self.stack.append(st[1])
                    v = self.call(st[2], a, kept_inline=True)
                    self.stack.pop()
                self.kept[st[1]] = v
                self.kept_order.append(st[1])
                locs.append(v)
            elif kind == "load":
                locs.append(self.load(st[1]))
            elif kind == "cls":
                c = self.prog["classes"][st[1]]
                self.executed.append(c["name"] + ".m")
                inner = self.run_body(c["body"], {})
                locs.append((c["name"] + ".m", c.get("ver", 0), dec(st[2])) + tuple(inner))
            elif kind == "comp":
                locs.append([1, 2])
            else:
                raise ValueError(st)
        return locs

    def call(self, fi, args, kept_inline=False):
        f = self.prog["funcs"][fi]
        vals = self.bind(f, args)
        if is_data(f) and self.served is not None and self.served(f["data"]):
            res = self._quiet().call(fi, args)
            self.kept[f["data"]] = res
            self.kept_order.append(f["data"])
            return res
        self.executed.append(f["name"])
        if is_data(f):
            self.stack.append(f["data"])
        if self.fail_at is not None and f["name"] == self.fail_at:
            self.stack_at_failure = list(self.stack)
            raise InjectedFailure(f["name"])
        params = {p: v for (p, _), v in zip(f["params"], vals)}
        locs = self.run_body(f["body"], params)
        if is_data(f):
            self.stack.pop()
        res = (f["name"], f.get("ver", 0)) + tuple(vals) + tuple(locs) + ((22 if f["ind"] else 12,) if "ind" in f else ())
        if f.get("ret") == "text":
            res = repr(res)
        elif f.get("ret") == "bytes":
            res = repr(res).encode("utf-8")
        elif f.get("ret") == "none":
            res = None
        if is_data(f):
            self.kept[f["data"]] = res
            self.kept_order.append(f["data"])
        return res


def expected_value(prog, root, args=None, committed=None):
    it = Interp(prog, committed)
    f = prog["funcs"][root]
    a = list(args) if args is not None else []
    a += [NO] * (len(f["params"]) - len(a))
    v = it.call(root, a)
    return v, it


# ---------------------------------------------------------------------------------- static structure

def closure(prog, fi, _seen=None):
    """Everything a function's value can statically depend on inside accepted code:
    {'f': set(func idx), 'v': set(var idx), 'c': set(class idx), 'loads': set(paths)}"""
    out = {"f": set(), "v": set(), "c": set(), "loads": set(), "ext": False}

    def visit_body(body):
        for st in body:
            k = st[0]
            if k == "var":
                out["v"].add(st[1])
            elif k == "ext":
                out["ext"] = True
            elif k in ("call", "ho"):
                for a in inline_args(st):
                    if a[0] == "icall":
                        visit_f(a[1])
                    else:
                        out["loads"].add(a[1])
                visit_f(st[1])
            elif k == "keep":
                for a in inline_args(st):
                    if a[0] == "icall":
                        visit_f(a[1])
                    else:
                        out["loads"].add(a[1])
                visit_f(st[2])
            elif k == "load":
                out["loads"].add(st[1])
            elif k == "cls":
                if st[1] not in out["c"]:
                    out["c"].add(st[1])
                    visit_body(prog["classes"][st[1]]["body"])

    def visit_f(i):
        if i in out["f"]:
            return
        out["f"].add(i)
        visit_body(prog["funcs"][i]["body"])

    visit_f(fi)
    return out


def kept_sites(prog, root):
    """Kept nodes reachable from root: list of dicts {path, callee, ctxfree, via}.
    ctxfree = zero-argument data function or keep statement whose arguments are all literals/omitted."""
    sites = {}
    seen = set()

    def visit_f(i):
        f = prog["funcs"][i]
        if is_data(f):
            sites.setdefault(f["data"], {"path": f["data"], "callee": i, "ctxfree": True, "kind": "data"})
        if i in seen:
            return
        seen.add(i)
        visit_body(f["body"])

    def visit_body(body):
        for st in body:
            k = st[0]
            if k in ("call", "ho"):
                for a in inline_args(st):
                    if a[0] == "icall":
                        visit_f(a[1])
                visit_f(st[1])
            elif k == "keep":
                for a in inline_args(st):
                    if a[0] == "icall":
                        visit_f(a[1])
                ctxfree = all(a[0] in ("lit", "omit") for a in st[4])
                sites.setdefault(st[1], {"path": st[1], "callee": st[2], "ctxfree": ctxfree, "kind": "keep", "args": st[4]})
                visit_f(st[2])
            elif k == "cls":
                visit_body(prog["classes"][st[1]]["body"])

    visit_f(root)
    return list(sites.values())


def all_paths(prog):
    ps = []
    for f in prog["funcs"]:
        if is_data(f):
            ps.append(f["data"])
        for st in f["body"]:
            if st[0] == "keep":
                ps.append(st[1])
    return ps


# ---------------------------------------------------------------------------------- edits

def apply_edit(prog, ed):
    """Returns a new program. ed is a JSON list; see DESIGN 2.2 E1-E10."""
    p = copy.deepcopy(prog)
    k = ed[0]
    if k == "setvar":          # E1
        p["vars"][ed[1]]["val"] = ed[2]
    elif k == "bump":          # E2 (value changing)
        p["funcs"][ed[1]]["ver"] = p["funcs"][ed[1]].get("ver", 0) + 1
    elif k == "pad":           # E2 (comment line inside the function: text changes, value does not)
        p["funcs"][ed[1]]["pad"] = p["funcs"][ed[1]].get("pad", 0) + 1
    elif k == "bumpcls":
        p["classes"][ed[1]]["ver"] = p["classes"][ed[1]].get("ver", 0) + 1
    elif k == "setlit":        # E3
        st = p["funcs"][ed[1]]["body"][ed[2]]
        args = st[4] if st[0] == "keep" else st[3]
        args[ed[3]][1] = ed[4]
    elif k == "unrelated":     # E4
        lay = p.setdefault("layout", {}).setdefault(str(ed[1]), {})
        lay.setdefault("extra", []).append([ed[2], ed[3], len(lay.get("extra", [])) + 1])
    elif k == "reorder":       # E5
        lay = p.setdefault("layout", {}).setdefault(str(ed[1]), {})
        lay["perm"] = ed[2]
    elif k == "ext_pad":       # E6 value preserving
        p.setdefault("ext", {})["pad"] = p.get("ext", {}).get("pad", 0) + 1
    elif k == "ext_val":       # E6 value changing (C02/C14 only)
        p.setdefault("ext", {})["ev"] = ed[1]
    elif k == "ext_ver":
        p.setdefault("ext", {})["ver"] = p.get("ext", {}).get("ver", 0) + 1
    elif k == "rename_mod":    # E8
        p["mods"][ed[1]] = ed[2]
    elif k == "setpath":       # E10
        p["funcs"][ed[1]]["data"] = ed[2]
    elif k == "tcomment":      # a comment is added / changed at the end of a line of the function
        p["funcs"][ed[1]]["tc"] = p["funcs"][ed[1]].get("tc", 0) + 1
    elif k == "indent":        # one statement moves into / out of a loop: only the indentation of its line changes
        p["funcs"][ed[1]]["ind"] = 1 - p["funcs"][ed[1]]["ind"]
    elif k == "rename_fun":    # the function gets another name (definition and every reference): the old name disappears
        p["funcs"][ed[1]]["name"] = ed[2]
    else:
        raise ValueError(ed)
    return p


def edit_target(ed):
    """('f'|'v'|'c'|None, index): the accepted-code fact an edit changes (None: outside every cone)."""
    k = ed[0]
    if k == "setvar":
        return ("v", ed[1])
    if k in ("bump", "pad", "setlit", "setpath", "rename_fun", "indent", "tcomment"):
        return ("f", ed[1])
    if k == "bumpcls":
        return ("c", ed[1])
    return (None, None)


def value_preserving(ed):
    return ed[0] in ("pad", "tcomment", "unrelated", "reorder", "ext_pad", "rename_mod")


def pkey(prog):
    return json.dumps(prog, sort_keys=True)


# ---------------------------------------------------------------------------------- execution-log model (C02)

def sim_log(prog, root, may_exec):
    """Names of the functions that run when `root` is evaluated and the kept node at path p runs its body
    only if may_exec(p) (otherwise it is served from the store and nothing below it runs)."""
    log = []

    def run_f(i, as_kept_path=None):
        f = prog["funcs"][i]
        if is_data(f):
            if not may_exec(f["data"]):
                return
        log.append(f["name"])
        run_body(f["body"])

    def run_body(body):
        for st in body:
            k = st[0]
            if k in ("call", "ho"):
                for a in inline_args(st):
                    if a[0] == "icall":
                        run_f(a[1])
                run_f(st[1])
            elif k == "keep":
                for a in inline_args(st):
                    if a[0] == "icall":
                        run_f(a[1])
                if may_exec(st[1]):
                    f = prog["funcs"][st[2]]
                    log.append(f["name"])
                    run_body(f["body"])
            elif k == "cls":
                log.append(prog["classes"][st[1]]["name"] + ".m")
                run_body(prog["classes"][st[1]]["body"])

    run_f(root)
    return log


def references(prog):
    """function index -> list of (container kind, container index, statement) referencing it"""
    out = {}
    for (ck, ci, _m, body) in all_bodies(prog):
        for st in body:
            for fi in stmt_targets(st):
                out.setdefault(fi, []).append((ck, ci, st))
            for a in inline_args(st):
                if a[0] == "icall":
                    out.setdefault(a[1], []).append((ck, ci, ["call", a[1], a[2], []]))
    return out


def keep_container(prog, path):
    for (ck, ci, _m, body) in all_bodies(prog):
        for st in body:
            if st[0] == "keep" and st[1] == path:
                return (ck, ci)
    return None


def context_owner(prog, root, path):
    """For a keep statement with run-time arguments at `path`: the function whose closure bounds everything its
    call-site context can depend on (cone item 7), or None when that cannot be bounded (conservative).
    Walk up from the containing function while its own arguments are only known at run time."""
    cont = keep_container(prog, path)
    if cont is None or cont[0] != "f":
        return None
    refs = references(prog)
    cur = cont[1]
    for _ in range(len(prog["funcs"]) + 1):
        f = prog["funcs"][cur]
        if is_data(f) or cur == root:
            return cur
        r = refs.get(cur, [])
        if len(r) != 1:
            return None
        (ck, ci, st) = r[0]
        if st[0] == "keep":
            if all(a[0] in ("lit", "omit") for a in st[4]):
                return cur
        elif st[0] == "call":
            explicit = [a for a in (st[3] if len(st) > 3 else []) if a[0] != "omit"]
            if not explicit and all(d != NO for _, d in f["params"]):
                return cur
        elif st[0] == "ho":
            if all(d != NO for _, d in f["params"]):
                return cur
        if ck != "f":
            return None
        cur = ci
    return None


def keep_sites_in(prog, fi):
    return [st[1] for st in prog["funcs"][fi]["body"] if st[0] == "keep"]
