"""Tagged JSON encoding of the Python values used as generated inputs (replay files must be JSON)."""
import base64
import collections
import dataclasses
import datetime
import math
import pathlib


@dataclasses.dataclass(frozen=True)
class DC2:
    a: object = None
    b: object = None


@dataclasses.dataclass(frozen=True)
class DC1:
    x: object = None


@dataclasses.dataclass(frozen=True)
class DC0:
    pass


_DCS = {"DC0": DC0, "DC1": DC1, "DC2": DC2}


class Opaque(object):
    """A general Python object: documented as not hashable by dds (TYPE_NOT_SUPPORTED)."""

    def __repr__(self):
        return "Opaque()"

    def __eq__(self, o):
        return isinstance(o, Opaque)

    def __hash__(self):
        return 7


def enc(v):
    if v is None or isinstance(v, (bool, str)):
        return v
    if isinstance(v, int):
        return v if abs(v) < 2 ** 53 else {"$": "int", "v": str(v)}
    if isinstance(v, float):
        if math.isnan(v) or math.isinf(v) or (v == 0.0 and math.copysign(1, v) < 0):
            return {"$": "float", "v": repr(v)}
        return {"$": "float", "v": v.hex()}
    if isinstance(v, bytes):
        return {"$": "bytes", "v": base64.b64encode(v).decode()}
    if isinstance(v, bytearray):
        return {"$": "bytearray", "v": base64.b64encode(bytes(v)).decode()}
    if isinstance(v, list):
        return {"$": "list", "v": [enc(x) for x in v]}
    if isinstance(v, tuple):
        return {"$": "tuple", "v": [enc(x) for x in v]}
    if isinstance(v, collections.OrderedDict):
        return {"$": "odict", "v": [[enc(k), enc(x)] for k, x in v.items()]}
    if isinstance(v, dict):
        return {"$": "dict", "v": [[enc(k), enc(x)] for k, x in v.items()]}
    if isinstance(v, pathlib.PurePosixPath):
        return {"$": "ppath", "v": str(v)}
    if isinstance(v, datetime.datetime):
        return {"$": "datetime", "v": [v.year, v.month, v.day, v.hour, v.minute, v.second, v.microsecond],
                "tz": None if v.tzinfo is None else "utc"}
    if isinstance(v, datetime.date):
        return {"$": "date", "v": [v.year, v.month, v.day]}
    if isinstance(v, datetime.time):
        return {"$": "time", "v": [v.hour, v.minute, v.second, v.microsecond]}
    if isinstance(v, datetime.timedelta):
        return {"$": "timedelta", "v": [v.days, v.seconds, v.microseconds]}
    if isinstance(v, datetime.timezone):
        return {"$": "tzutc"}
    if isinstance(v, Opaque):
        return {"$": "opaque"}
    if dataclasses.is_dataclass(v):
        return {"$": "dc", "c": type(v).__name__,
                "v": [enc(getattr(v, f.name)) for f in dataclasses.fields(v)]}
    raise TypeError(f"cannot encode {type(v)}")


def dec(j):
    if j is None or isinstance(j, (bool, str, int)):
        return j
    if isinstance(j, float):
        return j
    if isinstance(j, list):  # plain JSON list = python list (convenience)
        return [dec(x) for x in j]
    t = j["$"]
    if t == "int":
        return int(j["v"])
    if t == "float":
        s = j["v"]
        return float(s) if not s.lstrip("-").startswith("0x") else float.fromhex(s)
    if t == "bytes":
        return base64.b64decode(j["v"])
    if t == "bytearray":
        return bytearray(base64.b64decode(j["v"]))
    if t == "list":
        return [dec(x) for x in j["v"]]
    if t == "tuple":
        return tuple(dec(x) for x in j["v"])
    if t == "odict":
        return collections.OrderedDict((dec(k), dec(x)) for k, x in j["v"])
    if t == "dict":
        return dict((dec(k), dec(x)) for k, x in j["v"])
    if t == "ppath":
        return pathlib.PurePosixPath(j["v"])
    if t == "datetime":
        return datetime.datetime(*j["v"], tzinfo=datetime.timezone.utc if j.get("tz") else None)
    if t == "date":
        return datetime.date(*j["v"])
    if t == "time":
        return datetime.time(*j["v"])
    if t == "timedelta":
        return datetime.timedelta(*j["v"])
    if t == "tzutc":
        return datetime.timezone.utc
    if t == "opaque":
        return Opaque()
    if t == "dc":
        return _DCS[j["c"]](*[dec(x) for x in j["v"]])
    raise TypeError(f"cannot decode {j}")
