#!/usr/bin/env python3
"""keepseed.py <seed dir> <caught_by comma list or '-'> [note]  : store a confirmed seeded change under /verif/seeded/<name>/"""
import json, os, shutil, sys
sd = sys.argv[1].rstrip("/")
caught = [] if sys.argv[2] == "-" else sys.argv[2].split(",")
note = sys.argv[3] if len(sys.argv) > 3 else ""
name = os.path.basename(sd).replace("seed-", "")
dst = os.path.join("/verif/seeded", name)
os.makedirs(dst, exist_ok=True)
for f in ("patch.diff", "demo.py"):
    shutil.copy(os.path.join(sd, f), os.path.join(dst, f))
meta = json.load(open(os.path.join(sd, "meta.json")))
meta["confirmed"] = {
    "how": "tools/seedcheck.sh: scratch worktree of /repo HEAD; demo.py exits 0 on the clean tree and non-zero with patch.diff applied; "
           "repository suite still 59 passed with the patch; checks run with VERIF_REPO=<patched worktree>",
    "caught_by": caught,
    "note": note,
}
json.dump(meta, open(os.path.join(dst, "meta.json"), "w"), indent=1)
print("kept", dst, caught)
