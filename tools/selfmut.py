#!/usr/bin/env python3
"""Self-made sensitivity mutations (DESIGN.md 5, 'S' lists of the design round): each is applied to a scratch worktree
of /repo HEAD and the listed checks must report a violation.  usage: selfmut.py [name ...]"""
import os
import subprocess
import sys

sys.path.insert(0, os.path.dirname(os.path.abspath(__file__)))
from repl import repl  # noqa

VERIF = os.path.dirname(os.path.dirname(os.path.abspath(__file__)))
MUTS = [
    ("drop-ext-vars", "dds/introspect.py", '''        + [
            (HK(f"ext_variable_{local_path}"), sig)
            for (local_path, sig) in ext_vars.items()
        ]
''', "", ["C01"]),
    ("drop-subcall-sigs", "dds/introspect.py", "        + _fis_to_siglist(sub_fis)\n", "", ["C01"]),
    ("fun-path-in-sig", "dds/introspect.py", '''    all_pairs: List[Tuple[HK, PyHash]] = (
        body
''', '''    all_pairs: List[Tuple[HK, PyHash]] = (
        body
        + ([(HK("where"), dds_hash(sub_fis[0].fun_path._path.as_posix()))] if sub_fis else [])
''', ["C02"]),
    ("pid-in-hash", "dds/fun_args.py", '''    assert i
    res = digest(i[0])''', '''    assert i
    import os as _os
    i = list(i) + [(HashKey("pid"), PyHash(str(_os.getpid())))]
    res = digest(i[0])''', ["C02", "C03"]),
    ("python-hash", "dds/fun_args.py", '''def _algo_str(s: str) -> PyHash:
    return _algo_bytes(s.encode("utf-8"))''', '''def _algo_str(s: str) -> PyHash:
    return PyHash("%064x" % (hash(s) & ((1 << 255) - 1)))''', ["C03", "C05"]),
    ("hash-only-first-arg", "dds/introspect.py", '''            for (name, sig) in arg_ctx.named_args.items()
        ]''', '''            for (name, sig) in list(arg_ctx.named_args.items())[:1]
        ]''', ["C13", "C01"]),
    ("store-before-call", "dds/_api.py", '''        res = fun(*args, **kwargs)
        _add_delta(t, ProcessingStage.STORE_COMMIT)
        _logger.info(f"_eval:Evaluating (keep:{path}) fun {fun}: completed")
        if key is not None:''', '''        if key is not None:
            _store().store_blob(key, None, codec=None)
        res = fun(*args, **kwargs)
        _add_delta(t, ProcessingStage.STORE_COMMIT)
        _logger.info(f"_eval:Evaluating (keep:{path}) fun {fun}: completed")
        if key is not None:''', ["C10"]),
    ("commit-in-finally", "dds/_api.py", '''    finally:
        # Cleaning up the context
''', '''    finally:
        try:
            _store().sync_paths(_eval_ctx.requested_paths)
        except BaseException:
            pass
        # Cleaning up the context
''', ["C10", "C15"]),
    ("ignore-stages", "dds/_api.py", '''        if ProcessingStage.EVAL not in stages:
            _logger.debug("Stopping here")
            return None
''', '''        if ProcessingStage.EVAL not in stages and False:
            _logger.debug("Stopping here")
            return None
''', ["C15"]),
    ("lru-off-by-one", "dds/_lru_store.py", "        while len(self._cache) > self._capacity:", "        while len(self._cache) > self._capacity + 1:", ["C12"]),
    ("string-codec-strip", "dds/codecs/builtins.py", '''            return f.read().decode("utf-8")''', '''            return f.read().decode("utf-8").strip()''', ["C17"]),
    ("lowercase-paths", "dds/store.py", '''        segments = [s for s in path.split("/") if s]
        if not segments or''', '''        segments = [s.lower() for s in path.split("/") if s]
        if not segments or''', ["C08"]),
    ("startswith-accept", "dds/_eval_ctx.py", '''        for idx in range(1, len(cp._path.parts) + 1):
            if ".".join(cp._path.parts[:idx]) in self.whitelisted_packages:
                return True
        return False''', '''        dotted = ".".join(cp._path.parts)
        return any(dotted.startswith(p) for p in self.whitelisted_packages)''', ["C14"]),
    ("cycle-direct-caller-only", "dds/introspect.py", '''        if caller_fun_path in call_stack:
            # Recursive calls are not supported currently.''', '''        if caller_fun_path in call_stack[-1:]:
            # Recursive calls are not supported currently.''', ["C11"]),
    ("copy-under-links-only", "dds/codecs/databricks.py", "                if self._commit_type == CommitType.FULL:", "                if self._commit_type != CommitType.NO_COMMIT:", ["C19"]),
    ("drop-dep-sig", "dds/introspect.py", '''        + [(HK(f"dep_{dep}"), sig_) for (dep, sig_) in indirect_deps.items()]
''', "", ["C09"]),
    ("graph-mutates-inters", "dds/_plotting.py", '''    s = _structure(fis, indirect_refs)
''', '''    s = _structure(fis, indirect_refs)
    if fis.parsed_body:
        fis.parsed_body.pop()
''', ["C18"]),
    ("drop-realpath", "dds/store.py", '''                rp = os.path.realpath(loc)''', '''                rp = loc''', ["C16", "C04"]),
    ("meta-before-blob-check", "dds/store.py", '''        return os.path.exists(p) and os.path.exists(meta_p)''', '''        return os.path.exists(p)''', ["C06", "C07"]),
]


def main():
    names = sys.argv[1:]
    for (name, path, old, new, checks) in MUTS:
        if names and name not in names:
            continue
        wt = f"/tmp/sm-{os.getpid()}-{name}"
        subprocess.check_call(["git", "-C", "/repo", "worktree", "add", "-q", "--detach", wt, "HEAD"])
        try:
            try:
                repl(os.path.join(wt, path), old, new)
            except SystemExit as e:
                print(f"{name}: MUTATION DOES NOT APPLY ({e})")
                continue
            suite = subprocess.run(["/venv/bin/python", "-m", "pytest", "-q", "-p", "no:cacheprovider", "dds_tests"], cwd=wt,
                                   env=dict(os.environ, PYTHONPATH=wt), capture_output=True, text=True).stdout.strip().splitlines()[-1]
            res = []
            for c in checks:
                env = dict(os.environ, VERIF_REPO=wt, VERIF_EVIDENCE_DIR="/tmp/sc-evidence")
                p = subprocess.run(["/venv/bin/python", "-W", "ignore", "-m", "vf.run", c], cwd=VERIF, env=env, capture_output=True, text=True)
                res.append(f"{c}={p.returncode}")
            print(f"{name}: suite[{suite.split(' in ')[0].strip('= ')}] {' '.join(res)}", flush=True)
        finally:
            subprocess.call(["git", "-C", "/repo", "worktree", "remove", "--force", wt])


if __name__ == "__main__":
    main()
