#!/bin/bash
# compare pinned corpus signatures with the current tree
cd /verif
for d in corpus/C03/p*/; do p=$(basename $d); PYTHONPATH=/verif /venv/bin/python -m vf.harness.corpus_run corpus/C03/$p > /tmp/_c.json 2>/tmp/_c.err || { echo "FAIL $p"; tail -3 /tmp/_c.err; continue; }; cmp -s /tmp/_c.json corpus/C03/$p/expected.json && echo "same $p" || echo "DIFF $p"; done; rm -f /tmp/_c.json /tmp/_c.err
