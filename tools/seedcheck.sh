#!/bin/bash
# usage: seedcheck.sh <seed dir> [check ids...]
# Validates a seeded mutation in a scratch worktree (demo passes clean / fails patched / suite passes)
# and runs the given checks against the patched tree (VERIF_REPO). Removes the worktree afterwards.
sd=$(cd "$1" && pwd); shift
VERIFDIR=$(cd "$(dirname "$0")/.." && pwd)
wt=/tmp/sw-$$-$(basename $sd)
git -C /repo worktree add -q --detach $wt HEAD || exit 2
cleanup(){ git -C /repo worktree remove --force $wt 2>/dev/null; }
trap cleanup EXIT
cd $wt
PYTHONPATH=$wt timeout 600 /venv/bin/python $sd/demo.py >/tmp/sc-$$.out 2>&1; c0=$?
git apply $sd/patch.diff || { echo "PATCH DOES NOT APPLY"; exit 2; }
PYTHONPATH=$wt timeout 600 /venv/bin/python $sd/demo.py >/tmp/sc-$$.out 2>&1; c1=$?
suite=$(PYTHONPATH=$wt /venv/bin/python -m pytest -q -p no:cacheprovider dds_tests 2>&1 | tail -1)
echo "seed=$(basename $sd) demo_clean=$c0 demo_patched=$c1 suite='$suite'"
cd $VERIFDIR
for id in "$@"; do
  out=$(VERIF_EVIDENCE_DIR=/tmp/sc-evidence VERIF_REPO=$wt timeout 3000 /venv/bin/python -W ignore -m vf.run $id --tier ${SEED_TIER:-quick} 2>&1); rc=$?
  echo "  check $id -> exit $rc : $(echo "$out" | grep -v KNOWN-FINDING | head -2 | cut -c1-260 | tr '\n' ' ')"
done
rm -f /tmp/sc-$$.out
