#!/bin/bash
# run every registered quick check on /repo (regenerates /verif/evidence); prints one line per check
cd "$(dirname "$0")/.."
for id in $(/venv/bin/python -c "import json; print(' '.join(c['property_id'] for c in json.load(open('MANIFEST.json'))['checks']))"); do
  out=$(VERIF_SEED=${VERIF_SEED:-1} /venv/bin/python -W ignore -m vf.run $id --tier ${1:-quick} 2>&1); rc=$?
  echo "$id exit=$rc $(echo "$out" | grep -v KNOWN-FINDING | tail -1 | cut -c1-200)"
done
