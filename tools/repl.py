"""Line-ending preserving in-place replacement (many files of the repo use CRLF)."""
import sys


def repl(path, old, new, count=1):
    with open(path, newline="") as f:
        s = f.read()
    crlf = "\r\n" in s
    if crlf:
        old = old.replace("\r\n", "\n").replace("\n", "\r\n")
        new = new.replace("\r\n", "\n").replace("\n", "\r\n")
    n = s.count(old)
    if n != count:
        raise SystemExit(f"{path}: expected {count} occurrence(s) of the old text, found {n}")
    s = s.replace(old, new)
    with open(path, "w", newline="") as f:
        f.write(s)
    print(f"patched {path} (crlf={crlf})")
