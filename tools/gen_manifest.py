#!/usr/bin/env python3
"""Regenerates /verif/MANIFEST.json from the table below and validates it against the schema."""
import json
import os
import subprocess
import sys

VERIF = os.path.dirname(os.path.dirname(os.path.abspath(__file__)))
PY = "/venv/bin/python"

SETUP = (
    "/venv/bin/python -c 'import hypothesis' 2>/dev/null || "
    "/venv/bin/pip install --no-index --find-links /opt/veriftools/wheels --target /verif/.deps "
    "hypothesis sortedcontainers attrs; "
    "PYTHONPATH=/verif/.deps /venv/bin/python -c 'import atheris' 2>/dev/null || "
    "/venv/bin/pip install -q --no-index --find-links /opt/veriftools/wheels --target /verif/.deps atheris || true"
)

# id -> (level, technique, level text, level note, design ref)
CHECKS = {
    "C05": (
        "exploration",
        "exhaustive enumeration of a boundary alphabet to depth 2 + Hypothesis recursive values + (thorough tier) 16 "
        "coverage-guided atheris/libFuzzer campaigns driving the same strategy through fuzz_one_input; oracles: totality, "
        "cross-process determinism, injectivity by bucketing against a canonical form",
        "Every value of the enumerated sub-domain (exhaustive) and every generated deeper value is hashed by the real "
        "dds_hash in two interpreters; collisions are decided by bucketing all signatures. Generated search is the right "
        "level: the property quantifies over inputs and has an executable oracle.",
        "Trusted: the canonical-form function (the documented identifications); sha256 itself. Collisions that need "
        "strings embedding SHA-256 digests are a recorded known finding (KF-C05-digest-string) and excluded by construction.",
        "DESIGN.md 5/C05",
    ),
    "C13": (
        "exploration",
        "exhaustive enumeration of 1-2-parameter callee shapes x bindings x all spellings + Hypothesis for 3-4 parameters; "
        "oracle: one signature per binding over spellings and routes, distinct signatures for distinct bindings",
        "All spellings of each generated binding are evaluated by real dds on both routes (direct values / literals in "
        "evaluated source) and the captured signatures are grouped; exhaustive for the small shapes.",
        "Trusted: the CaptureStore wrapper (public Store interface) reports the signature dds commits; in-source literals are limited to ast.Constant.",
        "DESIGN.md 5/C13",
    ),
    "C12": (
        "exploration",
        "Hypothesis-generated operation sequences; lock-step differential against the bare store; weakref census for the bound",
        "Operation sequences over a small key pool are applied to the cache-wrapped and to a bare store and every answer "
        "is compared; live fetched objects are counted with weakrefs after every step.",
        "Trusted: the bare store as reference; gc.collect() frees unreferenced objects (CPython refcounting).",
        "DESIGN.md 5/C12",
    ),
    "C08": (
        "exploration",
        "Hypothesis-generated operation sequences against a dictionary model (model-based testing), 4 store kinds; "
        "exhaustive dot-path sub-domain; directory scan for escapes",
        "Store operations are interpreted against a dict model with a full scan after each commit / reopen; the path pool is "
        "seeded with concatenation-ambiguous pairs; every '.'/'..'/empty-segment path of <=3 segments is committed next to its neighbours.",
        "Trusted: the dict model; the fake dbutils for DBFS; prefix-related paths are not generated (undocumented).",
        "DESIGN.md 5/C08",
    ),
    "C01": (
        "exploration",
        "Hypothesis-generated programs (PipeLang) x edit/restart/revert/live-assignment histories x store kinds x code location "
        "(accepted package, IPython cells, __main__ script); oracle: dds-free reference interpreter (itself cross-checked against real Python with a stub dds)",
        "Every evaluation of every generated history is run by real dds in forked worker processes and its value compared with "
        "the reference interpreter for the current program state; generated search is the natural level for a property over programs x histories.",
        "Trusted: the reference interpreter (validated against real Python on a sample of every run); the PipeLang subset is the documented supported subset.",
        "DESIGN.md 5/C01",
    ),
    "C02": (
        "exploration",
        "Hypothesis-generated programs x single steps (no-op, restart, revert, module copy, entry switch, single edits); oracle: "
        "execution log within the log allowed by the dependency cone + unchanged signatures",
        "The execution log (recorded through a non-accepted module) of the evaluation after each step is compared with an upper "
        "bound computed from the model's dependency closure; signatures of nodes that must stay idle are compared before/after.",
        "Trusted: the closure computation of the model; run-time-argument nodes are only asserted idle for steps outside every cone.",
        "DESIGN.md 4.1, 5/C02",
    ),
    "C03": (
        "exploration",
        "metamorphic testing over generated programs x environment variants (fresh interpreters with other hash seeds, cwd, "
        "location, store kind, options, prior in-process history, kept lambdas after edits, lazily imported modules) + pinned "
        "corpus of program signatures and value hashes",
        "The signature map of each generated program is captured in a baseline and in 3-5 variants and must be identical; the "
        "committed corpus (pinned on the unmodified tree) must be reproduced byte-for-byte.",
        "Trusted: the CaptureStore wrapper; corpus re-pins are documented in corpus/C03/REPINS.md.",
        "DESIGN.md 5/C03",
    ),
    "C04": (
        "exploration",
        "Hypothesis-generated programs x histories (edits, reverts, restarts, evaluation by a second process, path changes) x "
        "store kinds against a dict model path->value; load in same/fresh process; data-directory file bytes",
        "After every evaluation of every generated history each path kept so far is loaded (same and fresh process) and compared with "
        "the model; text/bytes results are compared with the file under the data directory.",
        "Trusted: the dict model and the reference interpreter; DBFS judged against the fake dbutils.",
        "DESIGN.md 5/C04",
    ),
    "C09": (
        "exploration",
        "Hypothesis-generated load placements x producer kinds x orders x edit histories x stores; oracles: reference interpreter with "
        "program-order load semantics, reader re-execution iff the served value is new, DDS error on read-before-produce (static and dynamic order)",
        "Every generated pipeline/history is run by real dds; values, the execution log of the kept reader and the rejection of "
        "read-before-produce are checked; a templated sub-domain covers loads that run before a keep that precedes them in the source.",
        "Trusted: the reference interpreter; never-produced loads must fail with a DDSException of any code.",
        "DESIGN.md 5/C09",
    ),
    "C10": (
        "fault_enumeration",
        "Hypothesis-generated programs x every reachable function as the failing one x 8 exception classes x follow-ups; oracles: "
        "exception object identity, store traffic vs signatures from a fault-free twin, clean context, follow-ups == model",
        "A fault (exception raised from a chosen user function) is injected into generated pipelines; the store traffic captured "
        "through the Store interface and the directory contents are compared with what the model says had completed before the fault.",
        "Trusted: signatures from the twin run (store independence is C03); the model of which kept nodes are served or completed at the failure point.",
        "DESIGN.md 5/C10",
    ),
    "C11": (
        "exploration",
        "exhaustive enumeration (sharded) of kept-path lists / call-cycle shapes / nested-eval chains rendered to real programs; oracle: "
        "expected DDS error code, empty execution log, untouched store; well-formed twins must evaluate",
        "Every enumerated ill-formed program is evaluated by real dds on a pre-populated store; the overlap predicate is additionally "
        "enumerated over all ordered path lists at function level. Exhaustive within the stated bounds (quick tier strides the largest families).",
        "Trusted: the renderer of the three program families; self-reference through a higher-order argument is a recorded known finding (KF-C11-self-ho-cycle).",
        "DESIGN.md 5/C11",
    ),
    "C14": (
        "exploration",
        "enumerated grid (depth x accepted prefix / look-alike x number of accepted packages x import form x edit side x accept by "
        "name or by module object) on real programs in fresh processes; oracle: signature changes iff the edited module is covered",
        "Every grid point is rendered to a package tree, evaluated before and after an edit in fresh processes and the captured "
        "signature compared; the thorough tier enumerates the whole grid.",
        "Trusted: the CaptureStore wrapper; 'names the module' is judged on the message text.",
        "DESIGN.md 5/C14",
    ),
    "C15": (
        "exploration",
        "Hypothesis-generated programs x stage prefixes (spellings) x stores x prior history; oracles: store traffic / directory diff "
        "per stage and a metamorphic twin history without the restricted run",
        "Each generated case is run twice (with and without the restricted evaluation); traffic through the Store interface, directory "
        "snapshots, later values, signatures, served paths and execution logs are compared.",
        "Trusted: the CaptureStore wrapper and the directory snapshot.",
        "DESIGN.md 5/C15",
    ),
    "C16": (
        "exploration",
        "Hypothesis-generated local-store configurations (directory forms x cache option) x program x fixed multi-process history with "
        "cwd changes and two data views; oracle: reference interpreter values, load round trips, no kept body runs on shared blobs",
        "Each configuration is exercised by three real processes (cwd change, fresh process elsewhere, second data view, edit) and every "
        "load / evaluation is compared with the model.",
        "Trusted: the reference interpreter; relative directories are interpreted at set_store time.",
        "DESIGN.md 5/C16",
    ),
    "C17": (
        "exploration",
        "Hypothesis-generated result values of every storable type x codec registration sequences (writer, in between, fresh reader) x "
        "stores; oracle: round trip equality + type, codec-use log, verbatim file bytes",
        "Each value travels through a kept data function, dds.load in the writing process, a second keep and dds.load in a fresh process "
        "with generated codec registrations; text/bytes files are compared byte-for-byte.",
        "Trusted: DataFrame.equals for frames; the fake dbutils for DBFS.",
        "DESIGN.md 5/C17",
    ),
    "C19": (
        "exploration",
        "Hypothesis-generated commit-type spellings x operation sequences (keep, re-keep, load, reopen, legacy metadata rewrite, new data "
        "view, one-shot copy failure) x value types against the fake dbutils; oracle: file tree per commit type, byte identity, records, values",
        "After each step of each generated sequence the tree under the fake DBFS root is compared with what the commit type promises, "
        "and keep / load values with the model.",
        "Trusted: the in-process fake of dbutils.fs (documented semantics).",
        "DESIGN.md 5/C19",
    ),
    "C18": (
        "exploration",
        "Hypothesis-generated programs and load pipelines; graph exported in graphviz plain format, parsed and compared with edges "
        "derived from the program model; metamorphic comparison of value/signatures with and without export",
        "Every generated pipeline is evaluated with the export (analysis-only, full, debug on/off) and without; node and edge sets are "
        "compared exactly (solid, dashed) or against an allowed set (dotted).",
        "Trusted: the model's derivation of the expected edges; graphviz dot renders what pydotplus is given.",
        "DESIGN.md 5/C18",
    ),
    "C06": (
        "fault_enumeration",
        "fault injection by enumeration: SIGKILL of a forked victim at EVERY file-system-operation boundary (incl. both halves of each raw "
        "write) of generated scenarios; oracle: observer / recovery processes vs the reference model",
        "For each generated scenario the victim's complete boundary trace is enumerated and the process is killed at each boundary from "
        "an identical copy of the initial store; exhaustive per scenario at the granularity of Python-level os/open calls.",
        "Trusted: the FS proxy (cross-checked per scenario against an un-proxied run); kill -9 semantics without power-loss reordering.",
        "DESIGN.md 2.5, 5/C06",
    ),
    "C07": (
        "exploration",
        "controlled-schedule concurrency testing: forked processes stepped one FS operation at a time by a generated schedule (random "
        "lists + systematic <=2-preemption enumeration); oracle: per-process values, loads old-or-new, final store == model",
        "The harness owns the schedule: 2-3 real dds processes on one store are interleaved at file-system-operation granularity; every "
        "returned keep / load and the final store are compared with the model.",
        "Trusted: the FS proxy and scheduler; determinism of user functions.",
        "DESIGN.md 2.5, 5/C07",
    ),
}

NOT_YET = {}


def main():
    props = [json.loads(l) for l in open(os.path.join(VERIF, "properties.jsonl"))]
    checks = []
    na = []
    for p in props:
        pid = p["id"]
        if pid in CHECKS:
            level, tech, text, note, ref = CHECKS[pid]
            checks.append(
                {
                    "property_id": pid,
                    "quick_cmd": f"{PY} -W ignore -m vf.run {pid} --tier quick",
                    "thorough_cmd": f"{PY} -W ignore -m vf.run {pid} --tier thorough",
                    "evidence_file": f"/verif/evidence/{pid}.json",
                    "replay_cmd_template": f"{PY} -W ignore -m vf.run {pid} --replay {{path}}",
                    "engine": "vf",
                    "level_claimed": {"category": level, "text": text, "design_ref": ref},
                    "level_note": note,
                    "technique": tech,
                }
            )
        else:
            na.append({"property_id": pid, "reason": NOT_YET.get(pid, "check not built yet (work in progress; see DESIGN.md 5)")})
    man = {
        "version": 1,
        "setup_cmd": SETUP,
        "hooks": {
            "guard": "TJHUNTER_DDS_PY_VERIF",
            "enable": "no hooks are compiled into /repo: observation goes through the public dds.Store interface and "
                      "fault injection through run-time rebinding of module globals in forked children",
            "baseline_off_cmd": "cd /repo && /venv/bin/python -m pytest -ra -q -p no:cacheprovider --timeout=900 --continue-on-collection-errors",
            "source_commits": [],
            "add_only": True,
        },
        "engines": [
            {
                "name": "vf",
                "path": "/verif/vf",
                "serves_properties": sorted(CHECKS),
                "kind_free_text": "property-based testing / fuzzing framework: Hypothesis strategies and stateful machines, "
                                  "exhaustive enumeration of small finite domains, fork-based workers, controlled FS-operation scheduler",
            }
        ],
        "checks": checks,
        "not_applicable": na,
        "notes": "python -m vf.run <id> --tier quick|thorough; VERIF_SEED selects the Hypothesis seeds; VERIF_REPO (default /repo) "
                 "selects the tree under test. Exit 2 = harness error / inconclusive (never a violation).",
    }
    if not na:
        del man["not_applicable"]
    out = os.path.join(VERIF, "MANIFEST.json")
    with open(out, "w") as f:
        json.dump(man, f, indent=1)
    # validate
    code = (
        "import json,jsonschema;"
        "jsonschema.validate(json.load(open('%s')), json.load(open('/root/.vp/MANIFEST.schema.json')));print('MANIFEST valid')" % out
    )
    subprocess.check_call(["python3-vt", "-c", code])


if __name__ == "__main__":
    main()
