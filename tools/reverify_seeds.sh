#!/bin/bash
# Re-verify every stored seeded change against the current /repo HEAD: patch applies, demo clean=0 / patched!=0,
# suite unchanged, and the check(s) recorded in meta.json report a violation.  One line per seed.
cd "$(dirname "$0")/.."
here=$(pwd)
for d in seeded/*/; do
  name=$(basename $d)
  checks=$(/venv/bin/python -c "import json; print(' '.join(json.load(open('$d/meta.json'))['confirmed']['caught_by']))")
  out=$(bash tools/seedcheck.sh $here/$d $checks 2>&1)
  head=$(echo "$out" | grep -E "^seed=|PATCH DOES NOT APPLY" | head -1 | sed 's/suite=.*, \([0-9]* passed\).*/suite=\1/')
  res=$(echo "$out" | grep "check " | sed 's/ *check \(C[0-9]*\) -> exit \([0-9]\).*/\1=\2/' | tr '\n' ' ')
  echo "$name | $head | $res"
done
