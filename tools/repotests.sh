#!/bin/bash
# the repository's pinned suite (BASELINE.json command), summary only
cd /repo && /venv/bin/python -m pytest -ra -q -p no:cacheprovider --timeout=900 --continue-on-collection-errors 2>&1 | tail -4
