#!/bin/bash
# usage: harvest_seed.sh <seed dir> <check id> : search (VERIF_SEED 1..5 quick, then thorough) for a case on which the seeded change
# fails, and store it as corpus/<check>/h-<hash>.json (a regression case replayed first by every run of the check)
sd=$(cd "$1" && pwd); id=$2
VERIFDIR=$(cd "$(dirname "$0")/.." && pwd)
wt=/tmp/hv-$$-$(basename $sd)
git -C /repo worktree add -q --detach $wt HEAD || exit 2
trap "git -C /repo worktree remove --force $wt 2>/dev/null" EXIT
(cd $wt && git apply $sd/patch.diff) || { echo "PATCH DOES NOT APPLY"; exit 2; }
cd $VERIFDIR
for attempt in "1 quick" "2 quick" "3 quick" "5 quick" "1 thorough"; do
  set -- $attempt
  out=$(VERIF_SEED=$1 VERIF_EVIDENCE_DIR=/tmp/sc-evidence VERIF_REPO=$wt timeout 3000 /venv/bin/python -W ignore -m vf.run $id --tier $2 2>&1); rc=$?
  if [ $rc -eq 1 ]; then
    rp=$(echo "$out" | grep -o "replay=[^ ]*" | head -1 | cut -d= -f2)
    if [ -f "$rp" ] && [ $(stat -c %s "$rp") -lt 60000 ]; then
      /venv/bin/python - "$rp" "$id" "$(basename $sd)" <<'P'
import json, sys, os
rp, cid, seed = sys.argv[1:4]
b = json.load(open(rp))
out = f"/verif/corpus/{cid}/h-{os.path.basename(rp)}"
json.dump({"property": cid, "message": f"harvested from {seed}: " + b.get("message", "")[:160], "case": b["case"]}, open(out, "w"), sort_keys=True)
print("harvested", out)
P
    fi
    echo "$(basename $sd) $id caught at seed=$1 tier=$2"
    exit 0
  fi
done
echo "$(basename $sd) $id NOT caught"
exit 1
