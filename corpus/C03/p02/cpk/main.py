import dds

SCALE = 2.5
WORDS = ["x", "y"]
CONF = {"a": 1, "b": "two"}


def fun_lit(a, b, c=7):
    return ("fun_lit", a, b, c, SCALE)


def fun_rt(data, k="kk"):
    return ("fun_rt", len(data), k, WORDS)


def fun_kw(first, second=5):
    return ("fun_kw", first, second, CONF)


def wrapper():
    r1 = dds.keep("/p02/lit1", fun_lit, 1, "s")
    r2 = dds.keep("/p02/lit2", fun_lit, 1, "s", 9)
    r3 = dds.keep("/p02/kw", fun_kw, 3, second=4)
    data = [r1, r2]
    r4 = dds.keep("/p02/rt", fun_rt, data)
    r5 = dds.keep("/p02/rt2", fun_rt, data, k="other")
    return (r1, r2, r3, r4, r5)
