import dds
from collections import OrderedDict

LIMITS = OrderedDict([("lo", 1), ("hi", 9)])
TXT = "é-unicode ✓"


def l3():
    return ("l3", TXT)


@dds.data_function("/p06/d3")
def d3():
    return ("d3", l3())


@dds.data_function("/p06/d2")
def d2():
    acc = []
    for i in range(2):
        acc.append(i)
    if acc:
        z = d3()
    else:
        z = None
    return ("d2", acc, z, LIMITS["hi"])


@dds.data_function("/p06/d1")
def d1():
    first = d2()
    second = d2()
    return ("d1", first, second, d3())


def pipeline():
    return d1()
