import dds

SRC = "v1"


@dds.data_function("/p05/producer")
def producer():
    return ("producer", SRC)


@dds.data_function("/p05/reader")
def reader():
    x = dds.load("/p05/producer")
    return ("reader", x)


def pipeline():
    return reader()
