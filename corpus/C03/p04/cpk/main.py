import dds

FACTOR = 6


class Box(object):
    def __init__(self, v):
        self.v = v

    def get(self):
        return ("Box.get", self.v, FACTOR, inner())


def inner():
    return ("inner", FACTOR + 1)


def mapped(x=3):
    return ("mapped", x, FACTOR)


@dds.data_function("/p04/with_class")
def with_class():
    b = Box(5)
    return ("with_class", b.get())


@dds.data_function("/p04/with_ho")
def with_ho():
    return ("with_ho", list(map(mapped, [1, 2])), sorted([3, 1], key=mapped))


def pipeline():
    return (with_class(), with_ho())
