import dds
import cpk.lib
from cpk import lib as L
from cpk.lib import lib_b as renamed_b


@dds.data_function("/p03/out_a")
def out_a():
    return ("out_a", L.lib_a())


@dds.data_function("/p03/out_b")
def out_b():
    return ("out_b", renamed_b(), cpk.lib.lib_a())


def pipeline():
    return (out_a(), out_b())
