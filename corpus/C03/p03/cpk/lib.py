import dds
import cpk.sub.deep as dp
from cpk.sub import deep
from cpk.sub.deep import deep_fn as dfn

LIBV = 11


def lib_a():
    return ("lib_a", LIBV, dp.deep_fn())


def lib_b():
    return ("lib_b", deep.deep_data(), dfn())
