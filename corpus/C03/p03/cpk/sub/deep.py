import dds
from pathlib import PurePosixPath

DEPTH = 4
WHERE = PurePosixPath("/some/where")


def deep_fn():
    return ("deep_fn", DEPTH, str(WHERE))


@dds.data_function("/p03/deep_data")
def deep_data():
    return ("deep_data", deep_fn())
