import dds
from cext import util

RATE = 3
NAME = "alpha"


@dds.data_function("/p01/leaf")
def leaf():
    return ("leaf", RATE, util.ext_fn(1))


@dds.data_function("/p01/mid")
def mid():
    x = leaf()
    return ("mid", NAME, x)


def helper():
    return ("helper", leaf())


@dds.data_function("/p01/top")
def top():
    return ("top", mid(), helper())


def pipeline():
    a = top()
    b = leaf()
    return (a, b)
