K = 10


def ext_fn(x):
    return x + K
