import dds


def leaf_0():
    return ('leaf', 0)


def leaf_1():
    return ('leaf', 1)


def leaf_2():
    return ('leaf', 2)


def leaf_3():
    return ('leaf', 3)


def leaf_4():
    return ('leaf', 4)


def leaf_5():
    return ('leaf', 5)


def leaf_6():
    return ('leaf', 6)


def leaf_7():
    return ('leaf', 7)


def leaf_8():
    return ('leaf', 8)


def leaf_9():
    return ('leaf', 9)


def leaf_10():
    return ('leaf', 10)


def leaf_11():
    return ('leaf', 11)


def leaf_12():
    return ('leaf', 12)


def leaf_13():
    return ('leaf', 13)


def leaf_14():
    return ('leaf', 14)


def leaf_15():
    return ('leaf', 15)


def leaf_16():
    return ('leaf', 16)


def leaf_17():
    return ('leaf', 17)


def leaf_18():
    return ('leaf', 18)


def leaf_19():
    return ('leaf', 19)


def leaf_20():
    return ('leaf', 20)


def leaf_21():
    return ('leaf', 21)


def leaf_22():
    return ('leaf', 22)


def leaf_23():
    return ('leaf', 23)


def leaf_24():
    return ('leaf', 24)


def leaf_25():
    return ('leaf', 25)


def leaf_26():
    return ('leaf', 26)


def leaf_27():
    return ('leaf', 27)


def leaf_28():
    return ('leaf', 28)


def leaf_29():
    return ('leaf', 29)


def leaf_30():
    return ('leaf', 30)


def leaf_31():
    return ('leaf', 31)


def leaf_32():
    return ('leaf', 32)


def leaf_33():
    return ('leaf', 33)


def leaf_34():
    return ('leaf', 34)


def leaf_35():
    return ('leaf', 35)


def leaf_36():
    return ('leaf', 36)


def leaf_37():
    return ('leaf', 37)


def leaf_38():
    return ('leaf', 38)


def leaf_39():
    return ('leaf', 39)


def leaf_40():
    return ('leaf', 40)


def leaf_41():
    return ('leaf', 41)


def leaf_42():
    return ('leaf', 42)


def leaf_43():
    return ('leaf', 43)


def leaf_44():
    return ('leaf', 44)


def leaf_45():
    return ('leaf', 45)


def leaf_46():
    return ('leaf', 46)


def leaf_47():
    return ('leaf', 47)


def leaf_48():
    return ('leaf', 48)


def leaf_49():
    return ('leaf', 49)


def leaf_50():
    return ('leaf', 50)


def leaf_51():
    return ('leaf', 51)


def leaf_52():
    return ('leaf', 52)


def leaf_53():
    return ('leaf', 53)


def leaf_54():
    return ('leaf', 54)


def leaf_55():
    return ('leaf', 55)


def leaf_56():
    return ('leaf', 56)


def leaf_57():
    return ('leaf', 57)


def leaf_58():
    return ('leaf', 58)


def leaf_59():
    return ('leaf', 59)


def leaf_60():
    return ('leaf', 60)


def leaf_61():
    return ('leaf', 61)


def leaf_62():
    return ('leaf', 62)


def leaf_63():
    return ('leaf', 63)


def leaf_64():
    return ('leaf', 64)


def leaf_65():
    return ('leaf', 65)


def leaf_66():
    return ('leaf', 66)


def leaf_67():
    return ('leaf', 67)


def leaf_68():
    return ('leaf', 68)


def leaf_69():
    return ('leaf', 69)


def leaf_70():
    return ('leaf', 70)


def leaf_71():
    return ('leaf', 71)


def leaf_72():
    return ('leaf', 72)


def leaf_73():
    return ('leaf', 73)


def leaf_74():
    return ('leaf', 74)


def leaf_75():
    return ('leaf', 75)


def leaf_76():
    return ('leaf', 76)


def leaf_77():
    return ('leaf', 77)


def leaf_78():
    return ('leaf', 78)


def leaf_79():
    return ('leaf', 79)


def leaf_80():
    return ('leaf', 80)


def leaf_81():
    return ('leaf', 81)


def leaf_82():
    return ('leaf', 82)


def leaf_83():
    return ('leaf', 83)


def leaf_84():
    return ('leaf', 84)


def leaf_85():
    return ('leaf', 85)


def leaf_86():
    return ('leaf', 86)


def leaf_87():
    return ('leaf', 87)


def leaf_88():
    return ('leaf', 88)


def leaf_89():
    return ('leaf', 89)


def leaf_90():
    return ('leaf', 90)


def leaf_91():
    return ('leaf', 91)


def leaf_92():
    return ('leaf', 92)


def leaf_93():
    return ('leaf', 93)


def leaf_94():
    return ('leaf', 94)


def leaf_95():
    return ('leaf', 95)


def top():
    return tuple([
        dds.keep('/p07/l0', leaf_0),
        dds.keep('/p07/l1', leaf_1),
        dds.keep('/p07/l2', leaf_2),
        dds.keep('/p07/l3', leaf_3),
        dds.keep('/p07/l4', leaf_4),
        dds.keep('/p07/l5', leaf_5),
        dds.keep('/p07/l6', leaf_6),
        dds.keep('/p07/l7', leaf_7),
        dds.keep('/p07/l8', leaf_8),
        dds.keep('/p07/l9', leaf_9),
        dds.keep('/p07/l10', leaf_10),
        dds.keep('/p07/l11', leaf_11),
        dds.keep('/p07/l12', leaf_12),
        dds.keep('/p07/l13', leaf_13),
        dds.keep('/p07/l14', leaf_14),
        dds.keep('/p07/l15', leaf_15),
        dds.keep('/p07/l16', leaf_16),
        dds.keep('/p07/l17', leaf_17),
        dds.keep('/p07/l18', leaf_18),
        dds.keep('/p07/l19', leaf_19),
        dds.keep('/p07/l20', leaf_20),
        dds.keep('/p07/l21', leaf_21),
        dds.keep('/p07/l22', leaf_22),
        dds.keep('/p07/l23', leaf_23),
        dds.keep('/p07/l24', leaf_24),
        dds.keep('/p07/l25', leaf_25),
        dds.keep('/p07/l26', leaf_26),
        dds.keep('/p07/l27', leaf_27),
        dds.keep('/p07/l28', leaf_28),
        dds.keep('/p07/l29', leaf_29),
        dds.keep('/p07/l30', leaf_30),
        dds.keep('/p07/l31', leaf_31),
        dds.keep('/p07/l32', leaf_32),
        dds.keep('/p07/l33', leaf_33),
        dds.keep('/p07/l34', leaf_34),
        dds.keep('/p07/l35', leaf_35),
        dds.keep('/p07/l36', leaf_36),
        dds.keep('/p07/l37', leaf_37),
        dds.keep('/p07/l38', leaf_38),
        dds.keep('/p07/l39', leaf_39),
        dds.keep('/p07/l40', leaf_40),
        dds.keep('/p07/l41', leaf_41),
        dds.keep('/p07/l42', leaf_42),
        dds.keep('/p07/l43', leaf_43),
        dds.keep('/p07/l44', leaf_44),
        dds.keep('/p07/l45', leaf_45),
        dds.keep('/p07/l46', leaf_46),
        dds.keep('/p07/l47', leaf_47),
        dds.keep('/p07/l48', leaf_48),
        dds.keep('/p07/l49', leaf_49),
        dds.keep('/p07/l50', leaf_50),
        dds.keep('/p07/l51', leaf_51),
        dds.keep('/p07/l52', leaf_52),
        dds.keep('/p07/l53', leaf_53),
        dds.keep('/p07/l54', leaf_54),
        dds.keep('/p07/l55', leaf_55),
        dds.keep('/p07/l56', leaf_56),
        dds.keep('/p07/l57', leaf_57),
        dds.keep('/p07/l58', leaf_58),
        dds.keep('/p07/l59', leaf_59),
        dds.keep('/p07/l60', leaf_60),
        dds.keep('/p07/l61', leaf_61),
        dds.keep('/p07/l62', leaf_62),
        dds.keep('/p07/l63', leaf_63),
        dds.keep('/p07/l64', leaf_64),
        dds.keep('/p07/l65', leaf_65),
        dds.keep('/p07/l66', leaf_66),
        dds.keep('/p07/l67', leaf_67),
        dds.keep('/p07/l68', leaf_68),
        dds.keep('/p07/l69', leaf_69),
        dds.keep('/p07/l70', leaf_70),
        dds.keep('/p07/l71', leaf_71),
        dds.keep('/p07/l72', leaf_72),
        dds.keep('/p07/l73', leaf_73),
        dds.keep('/p07/l74', leaf_74),
        dds.keep('/p07/l75', leaf_75),
        dds.keep('/p07/l76', leaf_76),
        dds.keep('/p07/l77', leaf_77),
        dds.keep('/p07/l78', leaf_78),
        dds.keep('/p07/l79', leaf_79),
        dds.keep('/p07/l80', leaf_80),
        dds.keep('/p07/l81', leaf_81),
        dds.keep('/p07/l82', leaf_82),
        dds.keep('/p07/l83', leaf_83),
        dds.keep('/p07/l84', leaf_84),
        dds.keep('/p07/l85', leaf_85),
        dds.keep('/p07/l86', leaf_86),
        dds.keep('/p07/l87', leaf_87),
        dds.keep('/p07/l88', leaf_88),
        dds.keep('/p07/l89', leaf_89),
        dds.keep('/p07/l90', leaf_90),
        dds.keep('/p07/l91', leaf_91),
        dds.keep('/p07/l92', leaf_92),
        dds.keep('/p07/l93', leaf_93),
        dds.keep('/p07/l94', leaf_94),
        dds.keep('/p07/l95', leaf_95),
    ])
